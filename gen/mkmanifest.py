#!/usr/bin/env python3
# Writes /verif/MANIFEST.json from the registry of checks.
import json
import sys

sys.path.insert(0, '/verif/gen')
import props as P

TEXT = {
    'C16': ('Coq theorems (for ALL byte strings, no length bound): parse_method/parse_version bs = Some x <-> bs = raw x; '
            'parse_media exact modulo Unicode white space; round trips; raw_status injective and three digits; '
            'abs_path characterised on an exhaustive four-way classification of URIs and always empty or a /-prefixed '
            'suffix, and idempotent. The tables in the theorems are proved equal (reflexivity, every run) to the tables regenerated '
            'from /repo/src, and the model functions are run against the implementation on the exhaustive/edit/URI '
            'domains the property names.', 'DESIGN.md section 5 C16',
            'Coq proof (iff characterisations) + regenerated literal tables + differential run'),
    'C17': ('Coq theorems for EVERY registration sequence and request: route_key is injective; lookup on the table built '
            'by any sequence of add_route calls (duplicates included) equals the first registration for (method, prefix+path); '
            'handle_http_request runs exactly that handler once (or answers 404 over HTTP/1.1) and stamps server id and JSON '
            'content type; a duplicate registration is refused and leaves the table unchanged; a registration for another (method, prefix+path), anywhere in the order, never changes which handler answers. Key format, 404 and media '
            'type are tied to the source literals; recording handlers on the real router are compared with the model and '
            'with an independent dictionary oracle.', 'DESIGN.md section 5 C17',
            'Coq proof (refinement of the HashMap to first-match over the registration list) + differential run'),
    'C05': ('Coq theorems: the serialised bytes spelled out line by line; Content-Length rule for every version, status and '
            'builder program (unbounded length); an independent reader (status line, header lines, Content-Length bytes) '
            'recovers exactly (status line, header lines, body) from any concatenation of responses with arbitrary bodies '
            '(induction on the list of responses; decimal rendering proved exact); write_all delivers the same bytes for '
            'every sink behaviour. Hypothesis: server identity free of LF and bodies below 2^31 bytes (necessity witnessed). '
            'Strings tied to the source; bytes compared with the implementation and with an independent Python serialiser '
            'and reader on concatenations.', 'DESIGN.md section 5 C05',
            'Coq proof (round-trip law through an independent reader) + literal tie + differential run'),
    'C06': ('Coq theorems over every history of enqueue/try_write/clear and every write result allowed by io::Write '
            '(k <= len, EINTR, error, 0): accepted ++ unsent = committed (per discard epoch), hence prefix/no loss/no '
            'duplication/no reordering; pending_write <-> unsent non-empty; failure discards and reports closed; EINTR leaves '
            'the state; InvalidWrite without a write call; the drain(..k) panic site is unreachable. try_write of the '
            'implementation is driven through a scripted stream with the same histories and compared per call.',
            'DESIGN.md section 5 C06', 'Coq proof (invariant by induction over operations) + differential run'),
    'C01': ('Coq theorems, unbounded in stream length, number of requests, cut positions and empty reads: (spec) runT on '
            'a ++ b = runT on a continued on carry ++ b, hence feeding any chunking = the whole-stream parser; (impl model, '
            'mirroring HttpConnection field by field with explicit panic sites) one try_read on a chunk = the spec run on '
            'carry ++ chunk with the same deliveries, interim responses and error (simulation through a loop invariant; the '
            'loop fuel is never exhausted), so every sequence of read results allowed by recvmsg, EAGAIN/EINTR/EOF '
            'included, observes exactly parse_stream of the concatenated data; two schedules of one stream observe the same. '
            'Parametric in 2 <= BUF < 2^32. Tie: literal tables; extracted model vs implementation per call on grammar '
            'streams x schedules on the 1024- and 32-byte builds; metamorphic oracle on the implementation alone.',
            'DESIGN.md section 5 C01', 'Coq proof (refinement ConnImpl to ConnSpec + batch=incremental by induction) + differential run'),
    'C04': ('Coq theorems for every limit L and buffer size: at the blank line, size-limit error (L,n) iff n > L with no '
            'byte after the terminator needed; every delivered body has the declared length <= L (invariant over the run); '
            'a terminated line is rejected for length iff line+CRLF > BUF, an unterminated one iff BUF bytes arrived; carried to '
            'every segmentation of the implementation model by the C01 refinement. Server-side clauses: through HttpServer::requests one IN '
            'event equals the specification parser on carry ++ bytes read with the connection\'s limit (fixed at accept time), the '
            '400 for SizeLimitExceeded is queued on that connection, its body names both numbers, and polling while ready delivers it '
            'to that client (proved end to end for clients that keep their connections open); also compared byte '
            'for byte on real sockets. Tie: BUFFER_SIZE/MAX_PAYLOAD_SIZE '
            'literals; differential run at L in the property\'s set with the stream cut right after the header terminator and '
            'line lengths 1000..1100 at varying offsets; the iff is also evaluated on the implementation alone.',
            'DESIGN.md section 5 C04', 'Coq proof (decision rules as bi-implications + run invariant) + differential run'),
    'C11': ('Coq theorems: whenever try_read reports a ParseError, from any state and for any read result, the parser fields '
            'equal those of a new connection; and every later sequence of reads delivers the same requests, queues the same '
            'interim responses and reports the same first error as a new connection with the same limit (via the C01 '
            'refinement); at the server a rejected read yields nothing (not even requests completed earlier in it), queues the 400 '
            'and leaves the parser as a new connection\'s, after which polling yields exactly what the whole-stream parser started '
            'afresh delivers on the following input. Differential run on error prefix x continuation x schedule; implementation-only oracle: from the '
            'first ParseError on a freshly created HttpConnection is fed the same bytes and descriptors and must behave '
            'identically (this replays the defect repaired by fix commit a290849).',
            'DESIGN.md section 5 C11', 'Coq proof (reset lemma + refinement) + differential run + fresh-connection shadow oracle'),
    'C12': ('Coq theorems: list equation files(delivered requests) ++ files held = files held before ++ files received, in '
            'arrival order, over every error-free sequence of reads (EOF reads included); all pending descriptors go to the '
            'first request completed by a read, none to later ones; dropped on ParseError. Descriptors are opaque tokens in the '
            'model; closing on drop is Rust ownership and is checked at run time only (memfd per tag, fcntl after drop).',
            'DESIGN.md section 5 C12', 'Coq proof (conservation invariant by induction over reads) + differential run with real descriptors'),
    'C13': ('Coq theorems: a step emits Continue v iff it is the blank line ending a header block with expect set and '
            '0 < Content-Length <= L, exactly one, with the request\'s version, with no byte after the terminator needed; over any '
            'stream the interim responses are in order those of delivered requests with body and expect flag plus the one whose '
            'body is awaited; carried to the implementation model\'s response queue for every schedule by C01. Server-level '
            'clause: through HttpServer::requests the interim responses queued by a read are exactly those of the specification '
            'parser, appended to that connection\'s unsent output wherever the event stands in the batch, and (end-to-end theorem, '
            'clients keeping connections open) polling while ready terminates with exactly those interim responses delivered to '
            'that client, without the body being sent; also checked on real sockets (Expect head alone / after a '
            'complete request in the same segment / with its body).',
            'DESIGN.md section 5 C13', 'Coq proof (iff + run invariant) + differential run with output flushed between header block and body'),
    'C02': ('Coq theorems: a request line is accepted iff it is METHOD SP URI SP VERSION with table METHOD/VERSION and a '
            'non-empty UTF-8 URI without SP, fields verbatim; error precedence shape > method > URI > version; and the grammar as '
            'an EQUIVALENCE for whole streams of any length: the first request the whole-stream parser delivers is x iff the '
            'stream starts with a well-formed encoding of x (lines within the limit, headers acceptable under the C15 rules, body '
            'of exactly Content-Length <= L bytes), delivered verbatim, parsing continuing on the rest (pipelining); carried to every '
            'read schedule of the implementation model by C01; and the error outcome classified for whole streams: the parser '
            'reports error e after outputs o IFF the stream is a sequence of well-formed encodings (o = exactly their deliveries) '
            'followed by a tail whose first incomplete request has fault e (line too long, bad request line, bad/too long header '
            'line after good ones, declared length above the limit at the blank line), i.e. the first offending element in stream '
            'order. The implementation is compared with an independent Python recogniser of the '
            'grammar, error kinds included, on generated and corrupted streams.', 'DESIGN.md section 5 C02',
            'Coq proof (grammar and error classification as bi-implications by inversion of the step function) + independent recogniser oracle'),
    'C03': ('Coq theorems: Request::try_from reaches none of its 7 modelled panic sites for any bytes and max_len (CRLFCRLF '
            'offset lemma); from every state satisfying the connection invariant, every call (try_read with any result within '
            'recvmsg\'s contract, try_write with any result within write\'s contract, enqueue, pop, clear, set limit) keeps the '
            'invariant, reaches no modelled panic site (slices, unwrap, drain, unchecked arithmetic, loop-fuel exhaustion) and '
            'makes at most one system call; hence no sequence of calls does, including continued use after every error kind. '
            'Panics inside std and allocation failure are not modelled. Implementation run with catch_unwind and overflow '
            'checks on random/mutated bytes through all public parsers and random call sequences.',
            'DESIGN.md section 5 C03', 'Coq proof (invariant preservation over all calls; explicit panic outcomes) + catch_unwind run'),
    'C14': ('Coq theorems: whenever Request::try_from accepts a slice, the connection parser fed the same bytes (lines within '
            'the line limit, declared length within the payload limit) delivers as its first request exactly the same request '
            '(all fields and body) -- proved through a characterisation of split("\\r\\n"), the "first CRLFCRLF" cut and the C02 '
            'grammar equivalence; conversely, when the connection parser delivers exactly one request from a slice, consumes all '
            'of it and needs no more (and the block has a header line or no body), try_from accepts the same request; the '
            'hypothesis is shown satisfiable for every well-formed encoding; max_len rule; totality of the one-shot parser. '
            'Both entry points of the implementation are also executed on the same slices and compared field by field.',
            'DESIGN.md section 5 C14', 'Coq proof (both implications) + differential comparison of the two entry points'),
    'C15': ('Coq theorems about parse_header_line / headers_try_from / encoding_try_from: names classified identically up to '
            'ASCII case (UTF-8 validity invariant under lower-casing) and through trim; invalid UTF-8 and missing colon fatal '
            '(iff); Content-Length accepted iff u32::from_str grammar (characterised); Accept-Encoding fatal iff empty or a '
            'token trims to identity;q=0 or *;q=0 without identity anywhere; unsupported Content-Type/Accept/Transfer-Encoding/'
            'Expect values ignored with headers unchanged; each recognised line touches only its field; custom entries '
            'trimmed, last wins, frame; flags sticky over blocks; block = fold of lines; white space around names and values is '
            'ignored: trim(pad++x++pad) = trim x for every byte string x and every padding made of White_Space characters '
            '(ASCII and non-ASCII, in UTF-8), hence a padded header line is treated exactly as the plain one. Independent '
            'Python statement of the rules as oracle on line lists and blocks.', 'DESIGN.md section 5 C15',
            'Coq proof (decision table as (bi-)implications, fold laws) + independent rules oracle'),
    'C07': ('Coq theorems over a world model (HttpServer/ClientConnection mirrored over the connection model + an explicit '
            'kernel model), for every client behaviour, every order of ready events and ANY choice of unused descriptor numbers '
            'by accept (numbers of closed connections may be reused): an outstanding token\'s descriptor still names the '
            'connection instance that issued it (a connection with an outstanding token is never reaped: in-flight count = '
            'number of its tokens); respond changes only that connection and drops the response when it is closed; events '
            'touch only the connection they name; bytes a connection writes are a prefix of the serialisations enqueued on it '
            '(C06); for worlds in which no client has closed, a poll only extends each connection\'s own wire by server-generated '
            'replies and respond appends the response to the token owner\'s wire and to no other; and over ALL histories (clients '
            'closing, descriptor numbers reused): one map beta from connection instances to clients is right at every moment, a '
            'response supplied with token (fd,g) reaches the entry of instance g = client beta g, bytes enter a client\'s receive '
            'queue only from the unsent output of a connection of that client (or as its own 503), and unsent output has only two '
            'sources (own server-generated replies, responses with that entry\'s token). THE WHOLE STREAM (C07_stream_provenance): '
            'over every history of truthful polls (any batch order, any partial read/write), responses for held tokens, flushes and arbitrary '
            'client/environment behaviour, what each client has received is nothing, its own 503, or a prefix of the serialisation of a '
            'response sequence of its one connection instance whose elements are server-generated replies (100/400) or responses supplied '
            'with a token of that instance, the latter a subsequence of the supplied ones (at most once, in order); responses supplied + '
            'tokens held = requests yielded, per instance. Delivery to the peer is K3, truthful hang-up reports K4 (kernel contract). Decided on '
            'real Unix sockets with tagged requests and echoing responses, incl. close-with-in-flight + reconnect + late answer.',
            'DESIGN.md section 5 C07', 'Coq proof (world invariant, inductive over events/respond/flush/sweep) + real-socket correspondence'),
    'C08': ('Coq theorems: the interest invariant (state / pending output / epoll interest agree) holds between API calls and is '
            'kept by polling (any event order), responding and flushing, which never fail (bar the u32 in-flight overflow); no '
            'lost wake-up (unread bytes on a connection awaiting input, unsent output, hang-up or a waiting client enable the '
            'poll); no spin (nothing ready once no input, no unsent output and no waiting client remain, requests may be '
            'unanswered); yields = the whole-stream parser\'s deliveries for whatever read sizes the kernel chose (C01). '
            'Progress, for clients that keep their connections open: every poll enabled by truthful readiness, in any event order, '
            'strictly decreases the well-founded measure (unread client bytes + waiting clients, unsent output bytes), so every '
            'chain of polls is finite (Acc), and when nothing is ready no waiting client, unread input or unsent output remains; '
            'conservation: each connection\'s wire (client-received ++ unsent) is only extended, by server-generated replies; end '
            'to end: after respond, polling while ready terminates with the whole response in the client\'s receive queue; flush writes '
            'everything queued without polling; these worlds are exactly what well-behaved histories reach (invariant over all '
            'such histories); one IN event through HttpServer::requests equals the specification parser on carry ++ bytes read; '
            'exactly-once end to end: polling while ready yields, under a connection\'s descriptor, exactly the whole-stream '
            'parser\'s requests on its pending input, in order, once each, for any read sizes and interleaved writes. '
            'Write events accept any amount from one byte to everything offered (partial writes, responses larger than the socket '
            'buffer are inside the theorems; the executable model uses whole writes). Real-socket histories with irregular polls and respond-then-flush check '
            'yield counts, full delivery and quiescence.', 'DESIGN.md section 5 C08',
            'Coq proof (interest invariant, readiness lemmas, well-founded progress measure, conservation) + real-socket correspondence'),
    'C09': ('Coq theorems: from every world satisfying the invariant, for every batch of events allowed by the kernel contract '
            'in any order, the polling function yields and keeps the invariant (never InvalidWrite, never the unwrap panic; only '
            'other outcome: u32 overflow of an in-flight counter); handling an event leaves every other connection untouched; '
            'after the sweep no entry is closed-with-nothing-pending-and-nothing-in-flight; respond and flush keep the invariant; '
            'and the executable interpreter the correspondence run uses never leaves the invariant: after ANY list of operations '
            '(all client behaviours, polls, responses to any held token, flush, kill, limit) Inv holds and the next poll can only '
            'block, yield, report shutdown or overflow a u32 counter. Real-socket histories: a witness doing round trips among clients that send garbage, half-close, close, stop reading, '
            'with late or missing answers.', 'DESIGN.md section 5 C09',
            'Coq proof (invariant by induction over event batches) + real-socket correspondence'),
    'C10': ('Coq theorems: |connections| <= 10 in every world satisfying the invariant; a listener event refuses iff the table '
            'is full, then no entry changes and the refused client gets exactly the fixed message (literal-tied: 503, Connection: '
            'close, Content-Length: 40, 40-byte body) and the server end is closed; otherwise a new entry with the current limit; '
            'descriptors are distinct keys; entries leave the table exactly when done. Descriptor census (/proc/self/fd) and '
            'refusal bytes are checked on real sockets around the capacity boundary.', 'DESIGN.md section 5 C10',
            'Coq proof (invariant + decision rule) + real-socket correspondence with descriptor census'),
    'C18': ('Coq theorems: a signalled kill switch puts its event in every batch (poll enabled); whatever is handled before it, in '
            'any order, from any world satisfying the invariant, the poll reports Shutdown (bar the u32 overflow); unsignalled, '
            'its event never occurs and no event changes the flag. Relies on K4 (batch holds all ready descriptors: events array '
            'size MAX_CONNECTIONS + 2, literal-tied) and K6. Real-socket histories with the switch signalled at random points, '
            'each compared with a twin run without a switch; kill after an answer the server refused with Underflow (oracle only).', 'DESIGN.md section 5 C18',
            'Coq proof (any-order batch theorem) + real-socket correspondence with twin runs'),
}

NOTE = ('Trusted: Coq kernel; hand-written model tied to /repo by literal regeneration (gen/srclit.py) and '
        'differential execution of the extracted model (ExtrOcamlBasic only) against the cargo-built working tree; '
        'Rust std string functions are modelled (lib/Str.v, lib/Utf8.v), not verified. No axioms.')


def main():
    props = [json.loads(l) for l in open('/verif/properties.jsonl')]
    checks = []
    na = []
    for p in props:
        pid = p['id']
        if pid in P.REGISTRY and pid in TEXT:
            text, ref, tech = TEXT[pid]
            checks.append({
                'property_id': pid,
                'quick_cmd': './check %s --tier quick' % pid,
                'thorough_cmd': './check %s --tier thorough' % pid,
                'evidence_file': '/verif/evidence/%s.json' % pid,
                'replay_cmd_template': './check %s --replay {path}' % pid,
                'engine': 'coq-model-correspondence',
                'level_claimed': {'category': 'proof', 'text': text, 'design_ref': ref},
                'level_note': NOTE,
                'technique': tech,
            })
        else:
            na.append({'property_id': pid, 'reason': 'check not built yet in this session (work in progress; the '
                       'technique applies, see DESIGN.md section 5)'})
    m = {
        'version': 1,
        'setup_cmd': './setup.sh',
        'hooks': {
            'guard': 'micro_http_verif',
            'enable': 'RUSTFLAGS="--cfg micro_http_verif" (plus --cfg micro_http_verif_small for the 32-byte-buffer build)',
            'baseline_off_cmd': 'cd /repo && cargo test --workspace --no-fail-fast --offline',
            'source_commits': ['7a29a9f'],
            'add_only': True,
        },
        'engines': [{
            'name': 'coq-model-correspondence', 'path': '/verif/check',
            'serves_properties': [c['property_id'] for c in checks],
            'kind_free_text': 'Coq 8.16 theorems about a hand-written executable model; literal layer regenerated '
                              'from the source and proved equal to the model tables on every run; extracted model run '
                              'against the implementation built from /repo on generated cases; per-property '
                              'implementation-level oracle to find a concrete failing input',
        }],
        'checks': checks,
        'notes': 'See DESIGN.md. fix: commits a290849 78197b4 b13910b 09a5e40 in /repo repair four genuine defects '
                 '(known_findings.txt).',
        'not_applicable': na,
    }
    json.dump(m, open('/verif/MANIFEST.json', 'w'), indent=1)
    print('checks:', [c['property_id'] for c in checks])


main()
