#!/usr/bin/env python3
# Writes /verif/MANIFEST.json from the registry of checks.
import json
import sys

sys.path.insert(0, '/verif/gen')
import props as P

TEXT = {
    'C16': ('Coq theorems (for ALL byte strings, no length bound): parse_method/parse_version bs = Some x <-> bs = raw x; '
            'parse_media exact modulo Unicode white space; round trips; raw_status injective and three digits; '
            'abs_path characterised on an exhaustive four-way classification of URIs and always empty or a /-prefixed '
            'suffix. The tables in the theorems are proved equal (reflexivity, every run) to the tables regenerated '
            'from /repo/src, and the model functions are run against the implementation on the exhaustive/edit/URI '
            'domains the property names.', 'DESIGN.md section 5 C16',
            'Coq proof (iff characterisations) + regenerated literal tables + differential run'),
}

NOTE = ('Trusted: Coq kernel; hand-written model tied to /repo by literal regeneration (gen/srclit.py) and '
        'differential execution of the extracted model (ExtrOcamlBasic only) against the cargo-built working tree; '
        'Rust std string functions are modelled (lib/Str.v, lib/Utf8.v), not verified. No axioms.')


def main():
    props = [json.loads(l) for l in open('/verif/properties.jsonl')]
    checks = []
    na = []
    for p in props:
        pid = p['id']
        if pid in P.REGISTRY and pid in TEXT:
            text, ref, tech = TEXT[pid]
            checks.append({
                'property_id': pid,
                'quick_cmd': './check %s --tier quick' % pid,
                'thorough_cmd': './check %s --tier thorough' % pid,
                'evidence_file': '/verif/evidence/%s.json' % pid,
                'replay_cmd_template': './check %s --replay {path}' % pid,
                'engine': 'coq-model-correspondence',
                'level_claimed': {'category': 'proof', 'text': text, 'design_ref': ref},
                'level_note': NOTE,
                'technique': tech,
            })
        else:
            na.append({'property_id': pid, 'reason': 'check not built yet in this session (work in progress; the '
                       'technique applies, see DESIGN.md section 5)'})
    m = {
        'version': 1,
        'setup_cmd': './setup.sh',
        'hooks': {
            'guard': 'micro_http_verif',
            'enable': 'RUSTFLAGS="--cfg micro_http_verif" (plus --cfg micro_http_verif_small for the 32-byte-buffer build)',
            'baseline_off_cmd': 'cd /repo && cargo test --workspace --no-fail-fast --offline',
            'source_commits': ['7a29a9f'],
            'add_only': True,
        },
        'engines': [{
            'name': 'coq-model-correspondence', 'path': '/verif/check',
            'serves_properties': [c['property_id'] for c in checks],
            'kind_free_text': 'Coq 8.16 theorems about a hand-written executable model; literal layer regenerated '
                              'from the source and proved equal to the model tables on every run; extracted model run '
                              'against the implementation built from /repo on generated cases; per-property '
                              'implementation-level oracle to find a concrete failing input',
        }],
        'checks': checks,
        'notes': 'See DESIGN.md. fix: commits a290849 78197b4 b13910b 09a5e40 in /repo repair four genuine defects '
                 '(known_findings.txt).',
        'not_applicable': na,
    }
    json.dump(m, open('/verif/MANIFEST.json', 'w'), indent=1)
    print('checks:', [c['property_id'] for c in checks])


main()
