#!/usr/bin/env python3
# Writes /verif/MANIFEST.json from the registry of checks.
import json
import sys

sys.path.insert(0, '/verif/gen')
import props as P

TEXT = {
    'C16': ('Coq theorems (for ALL byte strings, no length bound): parse_method/parse_version bs = Some x <-> bs = raw x; '
            'parse_media exact modulo Unicode white space; round trips; raw_status injective and three digits; '
            'abs_path characterised on an exhaustive four-way classification of URIs and always empty or a /-prefixed '
            'suffix. The tables in the theorems are proved equal (reflexivity, every run) to the tables regenerated '
            'from /repo/src, and the model functions are run against the implementation on the exhaustive/edit/URI '
            'domains the property names.', 'DESIGN.md section 5 C16',
            'Coq proof (iff characterisations) + regenerated literal tables + differential run'),
    'C17': ('Coq theorems for EVERY registration sequence and request: route_key is injective; lookup on the table built '
            'by any sequence of add_route calls (duplicates included) equals the first registration for (method, prefix+path); '
            'handle_http_request runs exactly that handler once (or answers 404 over HTTP/1.1) and stamps server id and JSON '
            'content type; a duplicate registration is refused and leaves the table unchanged. Key format, 404 and media '
            'type are tied to the source literals; recording handlers on the real router are compared with the model and '
            'with an independent dictionary oracle.', 'DESIGN.md section 5 C17',
            'Coq proof (refinement of the HashMap to first-match over the registration list) + differential run'),
    'C05': ('Coq theorems: the serialised bytes spelled out line by line; Content-Length rule for every version, status and '
            'builder program (unbounded length); an independent reader (status line, header lines, Content-Length bytes) '
            'recovers exactly (status line, header lines, body) from any concatenation of responses with arbitrary bodies '
            '(induction on the list of responses; decimal rendering proved exact); write_all delivers the same bytes for '
            'every sink behaviour. Hypothesis: server identity free of LF and bodies below 2^31 bytes (necessity witnessed). '
            'Strings tied to the source; bytes compared with the implementation and with an independent Python serialiser '
            'and reader on concatenations.', 'DESIGN.md section 5 C05',
            'Coq proof (round-trip law through an independent reader) + literal tie + differential run'),
    'C06': ('Coq theorems over every history of enqueue/try_write/clear and every write result allowed by io::Write '
            '(k <= len, EINTR, error, 0): accepted ++ unsent = committed (per discard epoch), hence prefix/no loss/no '
            'duplication/no reordering; pending_write <-> unsent non-empty; failure discards and reports closed; EINTR leaves '
            'the state; InvalidWrite without a write call; the drain(..k) panic site is unreachable. try_write of the '
            'implementation is driven through a scripted stream with the same histories and compared per call.',
            'DESIGN.md section 5 C06', 'Coq proof (invariant by induction over operations) + differential run'),
}

NOTE = ('Trusted: Coq kernel; hand-written model tied to /repo by literal regeneration (gen/srclit.py) and '
        'differential execution of the extracted model (ExtrOcamlBasic only) against the cargo-built working tree; '
        'Rust std string functions are modelled (lib/Str.v, lib/Utf8.v), not verified. No axioms.')


def main():
    props = [json.loads(l) for l in open('/verif/properties.jsonl')]
    checks = []
    na = []
    for p in props:
        pid = p['id']
        if pid in P.REGISTRY and pid in TEXT:
            text, ref, tech = TEXT[pid]
            checks.append({
                'property_id': pid,
                'quick_cmd': './check %s --tier quick' % pid,
                'thorough_cmd': './check %s --tier thorough' % pid,
                'evidence_file': '/verif/evidence/%s.json' % pid,
                'replay_cmd_template': './check %s --replay {path}' % pid,
                'engine': 'coq-model-correspondence',
                'level_claimed': {'category': 'proof', 'text': text, 'design_ref': ref},
                'level_note': NOTE,
                'technique': tech,
            })
        else:
            na.append({'property_id': pid, 'reason': 'check not built yet in this session (work in progress; the '
                       'technique applies, see DESIGN.md section 5)'})
    m = {
        'version': 1,
        'setup_cmd': './setup.sh',
        'hooks': {
            'guard': 'micro_http_verif',
            'enable': 'RUSTFLAGS="--cfg micro_http_verif" (plus --cfg micro_http_verif_small for the 32-byte-buffer build)',
            'baseline_off_cmd': 'cd /repo && cargo test --workspace --no-fail-fast --offline',
            'source_commits': ['7a29a9f'],
            'add_only': True,
        },
        'engines': [{
            'name': 'coq-model-correspondence', 'path': '/verif/check',
            'serves_properties': [c['property_id'] for c in checks],
            'kind_free_text': 'Coq 8.16 theorems about a hand-written executable model; literal layer regenerated '
                              'from the source and proved equal to the model tables on every run; extracted model run '
                              'against the implementation built from /repo on generated cases; per-property '
                              'implementation-level oracle to find a concrete failing input',
        }],
        'checks': checks,
        'notes': 'See DESIGN.md. fix: commits a290849 78197b4 b13910b 09a5e40 in /repo repair four genuine defects '
                 '(known_findings.txt).',
        'not_applicable': na,
    }
    json.dump(m, open('/verif/MANIFEST.json', 'w'), indent=1)
    print('checks:', [c['property_id'] for c in checks])


main()
