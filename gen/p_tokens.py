# C16: token and URI functions.
import itertools

from base import Prop, rust_trim, is_utf8

METHODS = {b'GET': 'Get', b'PUT': 'Put', b'PATCH': 'Patch'}
VERSIONS = {b'HTTP/1.0': 'Http10', b'HTTP/1.1': 'Http11'}
MEDIA = {b'text/plain': 'PlainText', b'application/json': 'ApplicationJson'}
STATUS = [b'100', b'200', b'204', b'400', b'401', b'404', b'405', b'413', b'500', b'501', b'503']
CANON = list(METHODS) + list(VERSIONS) + list(MEDIA)

EACUTE = 'é'.encode('utf-8')


def abs_path_spec(u):
    """the property text: the URI itself if it starts with '/', the part from the first '/' after
    the authority for http://authority/..., empty otherwise"""
    if u.startswith(b'http://'):
        rest = u[7:]
        i = rest.find(b'/')
        return rest[i:] if i >= 0 else b''
    if u.startswith(b'/'):
        return u
    return b''


class C16(Prop):
    pid = 'C16'
    tie_groups = ['Tokens']
    observables = 'results of Method/Version/MediaType::try_from, the raw() tables, Uri::get_abs_path'
    rule = ('exhaustive short strings over the token alphabet + every single-byte edit/insert/delete of every '
            'canonical token + URIs over {h,t,p,:,/,a,.,%,U+00E9}; a case is non-trivial when it is a distinct '
            '(function, input) pair with a non-empty input; counted once per pair')

    def cases(self, rng, tier):
        out = []

        def add(kind, bs, k):
            out.append(([1, kind, bytes(bs)], {'kind': k}))
        # canonical tokens through every function
        for t in CANON + [b'', b' ', b'\x00']:
            for kind in (0, 1, 2):
                add(kind, t, 'canonical')
        for n in range(0, 12):
            out.append(([1, 5, b'\x00' * n], {'kind': 'raw-table'}))
        # every single-byte edit, insertion and deletion of every canonical token
        for t in CANON:
            kinds = (0, 1, 2)
            for i in range(len(t)):
                for v in range(256):
                    if v != t[i]:
                        e = t[:i] + bytes([v]) + t[i + 1:]
                        for kind in kinds:
                            add(kind, e, 'edit')
                d = t[:i] + t[i + 1:]
                for kind in kinds:
                    add(kind, d, 'delete')
            for i in range(len(t) + 1):
                for v in (0, 32, 9, 0xC3, ord('a'), ord('T'), 13, 10):
                    e = t[:i] + bytes([v]) + t[i:]
                    for kind in kinds:
                        add(kind, e, 'insert')
        # media types are accepted modulo surrounding white space (any White_Space code point)
        pads = [b' ', b'\t', b'\xc2\xa0', b'\xe2\x80\x83', b'\xe3\x80\x80', b'\r\n', b'\x0b', b'\xc2\x85', b'\x1f', b'\xe2\x80\x8b']
        for t in CANON:
            for p, q in itertools.product([b''] + pads, repeat=2):
                for kind in (0, 1, 2):
                    add(kind, p + t + q, 'padded')
        # exhaustive short strings over the letters of the method tokens with case flips, SP, NUL, non-ASCII
        alpha = sorted(set(b'GETPUACHgetpuach')) + [32, 0, 0xC3]
        maxlen = 3 if tier == 'quick' else 4
        for n in range(0, maxlen + 1):
            for tup in itertools.product(alpha, repeat=n):
                add(0, bytes(tup), 'exhaustive-method')
        full = sorted(set(b''.join(CANON)) | set(b''.join(CANON).swapcase())) + [32, 0, 0xC3]
        for n in range(0, 3 if tier == 'quick' else 4):
            for tup in itertools.product(full, repeat=n):
                for kind in (1, 2):
                    add(kind, bytes(tup), 'exhaustive-full')
        for _ in range(4000 if tier == 'quick' else 200000):
            n = rng.randint(4, 5)
            add(rng.choice((0, 1, 2)), bytes(rng.choice(full) for _ in range(n)), 'random-5')
        # URIs
        syms = [b'h', b't', b'p', b':', b'/', b'a', b'.', b'%', EACUTE]
        maxu = 4 if tier == 'quick' else 6
        for n in range(0, maxu + 1):
            for tup in itertools.product(syms, repeat=n):
                add(3, b''.join(tup), 'uri-exhaustive')
        for n in range(0, 4 if tier == 'quick' else 5):
            for tup in itertools.product(syms, repeat=n):
                add(3, b'http://' + b''.join(tup), 'uri-http')
                add(3, b'http:/' + b''.join(tup), 'uri-http')
        for _ in range(4000 if tier == 'quick' else 300000):
            n = rng.randint(5, 9)
            u = b''.join(rng.choice(syms) for _ in range(n))
            if rng.random() < 0.5:
                u = rng.choice([b'http://', b'http:/', b'HTTP://', b'https://', b'/']) + u
            add(3, u, 'uri-random')
        # structured URIs: concatenations of scheme-like, separator and name pieces (repeated scheme prefixes, schemes
        # in the path, ports, queries, non-ASCII names)
        pieces = [b'http://', b'http:/', b'http:', b'/', b'//', b'a', b'a.b', b':80', b'?q', EACUTE, b'h', b'HTTP://', b'%2F', b'#f']
        for n in range(1, 4 if tier == 'quick' else 5):
            for tup in itertools.product(pieces, repeat=n):
                add(3, b''.join(tup), 'uri-pieces')
        for _ in range(2000 if tier == 'quick' else 100000):
            add(3, b''.join(rng.choice(pieces) for _ in range(rng.randint(4, 7))), 'uri-pieces-random')
        # white-space characters other than SP are part of the token: nothing is trimmed
        wsp = [b'\t', b'\x0b', b'\x0c', b'\r', b'\n', b'\xc2\x85', b'\xc2\xa0', b'\xe2\x80\x83', b'\xe3\x80\x80', b' ']
        for w in wsp:
            for core in (b'/home', b'http://a/b', b'a', b'', b'/'):
                add(3, w + core, 'uri-white-space')
                add(3, core + w, 'uri-white-space')
                add(3, w + core + w, 'uri-white-space')
        for u in [b'http://', b'http:///', b'http://a', b'http://a/', b'/', b'//', b'*', b'\xff', b'http://\xff/', b'/\xff',
                  b'http://a/\xc3\xa9', b'\xc3\xa9/', b'http://\xc3\xa9/\xc3\xa9']:
            add(3, u, 'uri-edge')
        # Accept-Encoding values through Encoding::try_from (C15 uses them too)
        for e in [b'identity', b'identity;q=0', b'*;q=0', b'gzip, *;q=0', b'identity, *;q=0', b'', b' ', b'gzip;q=0',
                  b'\xff', b'*;q=0,identity;q=0']:
            add(4, e, 'encoding')
        return out

    def oracle(self, cases, impl):
        v = []
        status_seen = None
        for cid, t, m in cases:
            lines = impl.get(cid, [])
            if len(lines) != 1:
                v.append({'case': t, 'oracle': 'one-result-line', 'observed': lines, 'expected': 'exactly one line',
                          'signature': 'C16:noline'})
                continue
            got = lines[0].split(' ', 2)[2]
            kind, bs = t[2], bytes(t[3])
            exp = None
            if kind == 0:
                exp = 'method=' + METHODS.get(bs, 'None')
            elif kind == 1:
                exp = 'version=' + VERSIONS.get(bs, 'None')
            elif kind == 2:
                if bs and is_utf8(bs):
                    exp = 'media=' + MEDIA.get(rust_trim(bs), 'None')
                else:
                    exp = 'media=None'
            elif kind == 3:
                if bs and is_utf8(bs) and b' ' not in bs and b'\r\n' not in bs:
                    a = abs_path_spec(bs)
                    exp = 'abs=' + (a.hex() if a else '-')
                    if not (a == b'' or (a.startswith(b'/') and bs.endswith(a))):
                        exp = 'abs=IMPOSSIBLE'
            elif kind == 5:
                n = len(bs)
                mm = [b'GET', b'PUT', b'PATCH'][min(n, 2)]
                vv = [b'HTTP/1.0', b'HTTP/1.1'][min(n, 1)]
                me = [b'text/plain', b'application/json'][min(n, 1)]
                st = STATUS[n] if n < 11 else STATUS[10]
                exp = 'rawm=%s rawv=%s media=%s status=%s' % (mm.hex(), vv.hex(), me.hex(), st.hex())
            if exp is not None and got != exp:
                v.append({'case': t, 'oracle': 'C16 literal statement of the property', 'expected': exp,
                          'observed': got, 'signature': 'C16:kind%d' % kind})
        return v

    def nontrivial(self, tree, meta, impl_lines):
        if len(tree[3]) == 0:
            return None
        return (tree[2], bytes(tree[3]))
