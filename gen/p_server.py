# Server-level properties on real Unix sockets: C07, C08, C09, C10, C18.
import re

import pyhttp
import reqgen
from base import Prop

SERVER_FULL = (b'HTTP/1.1 503\r\nServer: Firecracker API\r\nConnection: close\r\nContent-Length: 40\r\n\r\n'
               b'{ "error": "Too many open connections" }')


def tagged_request(rng, c, seq, body=None, expect=False, limit=51200):
    """a well-formed request whose URI names its client and sequence number"""
    uri = b'/c%d/r%d' % (c, seq)
    m = rng.choice([b'GET', b'PUT', b'PATCH'])
    v = rng.choice([b'HTTP/1.0', b'HTTP/1.1'])
    hs = []
    if rng.random() < 0.3:
        hs.append(b'X-Tag: %d' % seq)
    if rng.random() < 0.25:
        # headers the crate knows with values it does not support: ignored, the request is served as usual
        hs.append(rng.choice([b'Accept: */*', b'Accept: text/html', b'Content-Type: text/html', b'Transfer-Encoding: gzip',
                              b'Accept-Encoding: gzip, deflate', b'accept:*/*', b'Accept-Encoding: br', b'Accept-Encoding: gzip;q=',
                              b'Accept-Encoding: identity;q=0.0']))
    if body is None:
        body = b''
        if m != b'GET' and rng.random() < 0.5:
            n = rng.choice([1, 3, 10, 200, 1500, 3000])
            body = (b'abcdefgh\r\n' * (n // 10 + 1))[:n]
    if body:
        hs.append(b'Content-Length: %d' % len(body))
        if expect:
            hs.append(b'Expect: 100-continue')
    rng.shuffle(hs)
    head = m + b' ' + uri + b' ' + v + b'\r\n' + b''.join(h + b'\r\n' for h in hs) + b'\r\n'
    return head, body


def split_pieces(rng, data):
    if len(data) < 2 or rng.random() < 0.4:
        return [data]
    k = rng.randint(1, min(3, len(data) - 1))
    cuts = sorted(rng.sample(range(1, len(data)), k))
    out = []
    prev = 0
    for c in cuts + [len(data)]:
        out.append(data[prev:c])
        prev = c
    return out


RESPS = [[1, 1, []], [1, 2, []], [0, 1, [[0, b'ok']]], [1, 5, [[0, b'{"fault":"nf"}']]], [1, 1, [[0, b'z' * 3000]]],
         [1, 3, [[0, b'bad']]], [1, 1, [[2], [0, b'dep']]],
         # a body on a status that starts without Content-Length (204, 100): the length is announced and the body sent
         [1, 2, [[0, b'gone']]], [0, 0, [[0, b'interim body']]], [1, 2, [[3], [0, b'x' * 40]]],
         # an explicitly empty body; a body with multi-byte characters (Content-Length counts bytes); one beyond 1 KiB
         [1, 1, [[0, b'']]], [1, 1, [[0, '{ "name": "Zo\u00eb M\u00fcller \u20ac" }'.encode()]]], [0, 1, [[0, b'k' * 1500]]]]


class Hist:
    """builds a history and keeps the generator's own bookkeeping"""

    def __init__(self, rng):
        self.rng = rng
        self.ops = []
        self.next_client = 0
        self.seq = {}
        self.alive = []
        self.sent = {}        # client -> number of complete requests sent
        self.nbytes = {}      # client -> bytes sent so far
        self.expect_heads = {}  # client -> [offset at which the head of an Expect request with a body is complete]

    def connect(self):
        c = self.next_client
        self.next_client += 1
        self.ops.append([0, c])
        self.seq[c] = 0
        self.sent[c] = 0
        self.alive.append(c)
        return c

    def request(self, c, pipelined=1, expect=False, poll_between=True):
        data = b''
        for _ in range(pipelined):
            head, body = tagged_request(self.rng, c, self.seq[c], expect=expect)
            self.seq[c] += 1
            self.sent[c] += 1
            if body and b'Expect: 100-continue' in head:
                self.expect_heads.setdefault(c, []).append(self.nbytes.get(c, 0) + len(data) + len(head))
            data += head + body
        self.nbytes[c] = self.nbytes.get(c, 0) + len(data)
        for piece in split_pieces(self.rng, data):
            self.ops.append([1, c, piece])
            if poll_between and self.rng.random() < 0.5:
                self.poll()

    def poll(self, quiesce=None):
        if quiesce is None:
            quiesce = self.rng.random() < 0.5
        self.ops.append([11, self.rng.choice([6, 10])] if quiesce else [6])

    def respond(self, echo=True):
        if echo:
            self.ops.append([12, self.rng.randint(0, 7)])
        else:
            self.ops.append([7, self.rng.randint(0, 7), self.rng.choice(RESPS)])
        if self.rng.random() < 0.25:
            self.ops.append([8])

    def drain(self, c):
        self.ops.append([5, c])

    def finish(self, clients=None):
        """answer everything, poll to quiescence, drain every live client"""
        for _ in range(3):
            self.ops.append([11, 12])
            for _ in range(12):
                self.ops.append([12, 0])
        self.ops.append([11, 12])
        self.ops.append([6])
        self.ops.append([6])
        for c in (clients if clients is not None else self.alive):
            self.ops.append([5, c])


def well_behaved(rng, nclients=None):
    h = Hist(rng)
    n = nclients or rng.randint(1, 4)
    cs = [h.connect() for _ in range(n)]
    h.poll()
    for _ in range(rng.randint(2, 14)):
        r = rng.random()
        c = rng.choice(cs)
        if r < 0.45:
            h.request(c, pipelined=rng.choice([1, 1, 2, 3]), expect=(rng.random() < 0.2))
        elif r < 0.7:
            h.respond(echo=True)
        elif r < 0.85:
            h.poll()
        else:
            h.drain(c)
    h.finish()
    return h


def adversarial(rng):
    h = Hist(rng)
    w = h.connect()                # the witness
    others = [h.connect() for _ in range(rng.randint(1, 3))]
    h.poll(quiesce=True)
    dead = set()
    for _ in range(rng.randint(4, 16)):
        r = rng.random()
        if r < 0.3:
            # a witness round trip
            h.request(w, poll_between=False)
            h.ops.append([11, 8])
            h.ops.append([12, rng.randint(0, 5)])
            h.ops.append([11, 8])
            h.drain(w)
        else:
            live = [o for o in others if o not in dead]
            if not live:
                others.append(h.connect())
                continue
            o = rng.choice(live)
            q = rng.random()
            if q < 0.25:
                h.request(o, pipelined=rng.choice([1, 2]), poll_between=False)
            elif q < 0.4:
                k = rng.choice([0, 1, 2, 3, 100, 126, 127, 128, 129, 254, 255, 256, 257, 500, 511, 512, rng.randint(0, 1000), rng.randint(0, 1000)])
                h.ops.append([1, o, rng.choice([b'garbage\r\n\r\n', b'GET\r\n', b'PUT /x HTTP/1.1\r\nContent-Length: 99999999\r\n\r\n',
                                                b'GET /partial HTT', b'\r\n', b'PUT /c%d/big HTTP/1.1\r\nContent-Length: 10\r\n\r\nabc' % o,
                                                b'GET / HTTP/1.1\r\nX: \xff\r\n\r\n',
                                                # every kind of malformed request the connection-level generator knows
                                                reqgen.gen_bad_request(rng, 51200)[0], reqgen.gen_bad_request(rng, 51200)[0],
                                                # an over-long header line with multi-byte characters at varying offsets (echoed in the 400)
                                                b'GET / HTTP/1.1\r\nX-L: ' + b'a' * k + '\u00e9'.encode() * 600,
                                                b'GET /' + b'u' * k + '\u00e9'.encode() * 600,
                                                # a declared length beyond 32 bits with a body that looks like a request
                                                b'PUT /c%d/big HTTP/1.1\r\nContent-Length: 4294967296\r\n\r\nGET /c99/smuggled HTTP/1.1\r\n\r\n' % o,
                                                b'PUT /c%d/big HTTP/1.1\r\nContent-Length:\r\n\r\n' % o,
                                                # a padded Content-Length name (accepted by the crate) and a body that looks like another client's request
                                                b'PUT /c%d/own HTTP/1.1\r\n' % o + rng.choice([b'Content-Length ', b' Content-Length', b'\tcontent-length\t', b'CONTENT-LENGTH  '])
                                                + b': 27\r\n\r\nGET /c99/other HTTP/1.1\r\n\r\n'])])
            elif q < 0.5:
                h.ops.append([4, o])          # shutdown(RD): never reads its responses again
            elif q < 0.6:
                h.ops.append([3, o])
                dead.add(o)
            elif q < 0.72:
                h.ops.append([2, o])
                dead.add(o)
                h.alive.remove(o)
            elif q < 0.87:
                h.ops.append([12, rng.randint(0, 5)] if rng.random() < 0.7 else [7, rng.randint(0, 5), rng.choice(RESPS)])
            else:
                h.poll()
    # the witness must still be served
    h.request(w, poll_between=False)
    h.finish(clients=[w])
    # what the other clients received is observed too (C07 judges every client's stream)
    noread = set(op[1] for op in h.ops if op[0] == 4)      # clients that shut down their read side never read again
    for o in others:
        if o in h.alive and o not in noread:
            h.ops.append([5, o])
    h.witness = w
    return h


def capacity(rng):
    h = Hist(rng)
    n = rng.choice([9, 10, 11, 12, 13])
    cs = [h.connect() for _ in range(n)]
    if rng.random() < 0.3:
        extra = rng.choice(cs[10:]) if n > 10 else None
        if extra is not None:
            h.ops.append([2, extra])             # connect + close before the server polls
            h.alive.remove(extra)
    h.ops.append([11, 20])
    refused = cs[10:]
    for c in refused:
        if c in h.alive:
            h.drain(c)
            h.alive.remove(c)
    # some traffic, some closes (with unread input, unsent output, in-flight requests), refill
    held = cs[:10]
    for _ in range(rng.randint(2, 8)):
        r = rng.random()
        live = [c for c in held if c in h.alive]
        if not live:
            break
        c = rng.choice(live)
        if r < 0.35:
            h.request(c, poll_between=False)
            if rng.random() < 0.6:
                h.ops.append([11, 6])
        elif r < 0.6:
            h.ops.append([2, c])
            h.alive.remove(c)
            if rng.random() < 0.6:
                h.ops.append([11, 6])
        elif r < 0.8:
            h.respond(echo=True)
        else:
            nc = h.connect()
            held.append(nc)
            h.ops.append([11, 6])
    h.finish()
    return h


class ServerProp(Prop):
    tie_groups = ['Server', 'Limits', 'Response']
    observables = ('per poll: ready or blocked, result, yielded requests; per respond: result; per drain: bytes the client '
                   'received and whether it was disconnected; final connection table (state, in-flight count, pending output) and descriptor census')

    def mk(self, h, flags, meta):
        meta = dict(meta)
        meta['sent'] = dict(h.sent)
        meta['expect_heads'] = dict(getattr(h, 'expect_heads', {}))
        meta['alive'] = list(getattr(h, 'alive', []))
        return ([9, flags, h.ops], meta)

    def split_builds(self, cases, exe, exe_small):
        return [(1024, exe, cases)]

    def project(self, line):
        m = re.match(r'(srv \d+ \d+ drain \d+ )([0-9a-f-]+)( \w+)$', line)
        if m and m.group(2) != '-':
            b = bytes.fromhex(m.group(2))
            if b'Header contains invalid characters' in b or b'Invalid content length. Header:' in b:
                return m.group(1) + 'CANON-400' + m.group(3)
        return line

    # ---- helpers shared by the oracles
    @staticmethod
    def replay(t, lines):
        """walks ops and lines together; yields (i, op, [lines of op i])"""
        by = {}
        end = None
        for ln in lines:
            p = ln.split(' ')
            if p[0] in ('hang', 'panic'):
                by.setdefault(-1, []).append(ln)
                continue
            if p[2] == 'end':
                end = ln
            else:
                by.setdefault(int(p[2]), []).append(ln)
        return [(i, op, by.get(i, [])) for i, op in enumerate(t[3])] + ([(-1, [-1], by[-1])] if -1 in by else []), end

    def analyse(self, t, lines):
        """bookkeeping from the implementation's own output: who was yielded what, who answered what,
        what each client received"""
        steps, end = self.replay(t, lines)
        outstanding = []
        yielded = []
        answered = {}          # client -> list of uris in the order the application answered them
        statics = {}           # client -> serialisations of the static answers supplied for its requests, in order
        rx = {}
        status = {}
        polls = []
        errs = []
        sentb = {}
        quiet = False
        flushed = False
        flush_drains = []      # (client, bytes received so far, answers supplied so far) at drains right after a flush, no poll between
        quiet_drains = []      # (client, bytes sent by it so far, bytes received by it so far) at drains right after a blocked poll
        for i, op, ls in steps:
            if op[0] == -1:
                errs += [(i, ln) for ln in ls]       # the implementation hung or panicked
                continue
            if op[0] == 1:
                for ln in ls:
                    sentb[op[1]] = sentb.get(op[1], 0) + int(ln.split(' ')[5])
                quiet = False
            elif op[0] in (6, 11):
                quiet = bool(ls) and ls[-1].endswith('poll blocked')
                flushed = False
            elif op[0] == 8:
                flushed = True
                quiet = False
            elif op[0] not in (5,):
                quiet = False
                flushed = False
            for ln in ls:
                if ' poll ' in ln:
                    polls.append((i, ln))
                    if ' poll Ok ' in ln:
                        for r in ln.split(' | ')[1:]:
                            mm = re.search(r' u=([0-9a-f-]+) ', r)
                            uri = bytes.fromhex(mm.group(1).replace('-', '')) if mm else b''
                            outstanding.append(uri)
                            yielded.append(uri)
                    elif 'blocked' not in ln:
                        errs.append((i, ln))
                elif ' resp ' in ln:
                    if ln.endswith('resp Ok') and outstanding:
                        idx = op[1] % len(outstanding)
                        uri = outstanding.pop(idx)
                        mm = re.match(rb'/c(\d+)/', uri)
                        if mm:
                            answered.setdefault(int(mm.group(1)), []).append((uri, op[0] == 12))
                            if op[0] == 7:
                                # a static answer: the exact bytes the client must receive for it
                                statics.setdefault(int(mm.group(1)), []).append(pyhttp.serialize(pyhttp.build(op[2])))
                        elif op[0] == 7:
                            # answer to a request whose URI carries no client tag (a malformed-looking request the grammar accepts)
                            statics.setdefault(-1, []).append(pyhttp.serialize(pyhttp.build(op[2])))
                    elif 'Err' in ln:
                        errs.append((i, ln))
                elif ' drain ' in ln:
                    p = ln.split(' ')
                    c = int(p[4])
                    rx[c] = rx.get(c, b'') + (bytes.fromhex(p[5]) if p[5] != '-' else b'')
                    status[c] = p[6]
                    if quiet:
                        quiet_drains.append((c, sentb.get(c, 0), rx[c]))
                    if flushed:
                        flush_drains.append((c, rx[c], [u for (u, e) in answered.get(c, []) if e]))
        return {'quiet_drains': quiet_drains, 'flush_drains': flush_drains, 'yielded': yielded, 'answered': answered, 'statics': statics, 'rx': rx, 'status': status, 'polls': polls,
                'errs': errs, 'end': end, 'outstanding': outstanding}

    def viol(self, t, exp, obs, sig):
        return {'case': t, 'oracle': 'implementation-level monitor on real sockets', 'expected': exp[:400],
                'observed': obs[:400], 'signature': self.pid + ':' + sig}

    def nontrivial(self, tree, meta, impl_lines):
        ops = tree[3]
        nconn = sum(1 for o in ops if o[0] == 0)
        if nconn >= 2 or any(o[0] in (2, 3, 4) for o in ops):
            return repr(ops)[:3000]
        return None

    def extra_coverage(self, cases, impl):
        kinds = {}
        yields = 0
        blocked = 0
        for cid, t, m in cases:
            for ln in impl.get(cid, []):
                if ' poll Ok ' in ln:
                    yields += len(ln.split(' | ')) - 1
                if ln.endswith('poll blocked'):
                    blocked += 1
        return {'requests_yielded': yields, 'polls_found_not_ready': blocked,
                'kernel_contract': 'K1-K8 of DESIGN.md 5.0b are assumed by the theorems; the run confirms them only through the '
                                   'agreement of the kernel model with the real sockets on every generated history'}


def large_cases(prop, rng, tier, n_quick, n_thorough):
    """responses larger than the socket buffer: outside the executable kernel model (K3: the theorems cover any partial
    write), decided on the implementation alone: the client reads in rounds, the server is polled only while its epoll
    descriptor signals.  Every second history pipelines two requests and queues the second answer behind the
    partially written large one."""
    out = []
    for i in range(n_quick if tier == 'quick' else n_thorough):
        h = Hist(rng)
        pipelined = (i % 2 == 1)
        cs = [h.connect() for _ in range(1 if pipelined else rng.randint(1, 2))]
        h.ops.append([11, 4])
        for c in cs:
            h.request(c, pipelined=2 if pipelined else 1, poll_between=False)
        h.ops.append([11, 8])
        size = rng.choice([300000, 700000] if tier == 'quick' else [250000, 300000, 700000, 1500000])
        body = (b'0123456789abcdef' * (size // 16 + 1))[:size]
        for c in cs:
            h.ops.append([7, 0, [1, 1, [[0, body]]]])
        if pipelined:
            h.ops.append([12, 0])
        for _ in range(size // 60000 + 6):
            h.ops.append([11, 6])
            for c in cs:
                h.ops.append([5, c])
        for c in cs:
            h.request(c, poll_between=False)
        h.finish()
        nxt = 2 if pipelined else 1
        # which of the two pipelined requests token 0 names depends on the interpreter's canonical order of a poll's yields
        expect = [[c, ['BIG'] + (['/c%d/r0|/c%d/r1' % (c, c)] if pipelined else []) + ['/c%d/r%d' % (c, nxt)]] for c in cs]
        out.append(prop.mk(h, 0, {'kind': 'large-response', 'oracle_only': True, 'size': size, 'clients': cs,
                                  'pipelined': pipelined, 'expect': expect}))
    return out


def large_oracle(prop, t, m, a, v):
    """each client of a large-response history receives exactly the supplied responses, whole and in order"""
    big = (b'0123456789abcdef' * (m['size'] // 16 + 1))[:m['size']]
    for c, exp in m['expect']:
        rs = pyhttp.read_all(a['rx'].get(c, b''))
        bodies = [b for (_, _, b) in (rs or [])]
        ok = rs is not None and len(bodies) == len(exp) and all(
            (b == big) if e == 'BIG' else (b in [b'echo:' + x.encode() for x in e.split('|')]) for (b, e) in zip(bodies, exp))
        if not ok:
            v.append(prop.viol(t, 'client %d receives the %d-byte response in full, then %s' % (c, m['size'], ', '.join(exp[1:])),
                               'received %d bytes: %s' % (len(a['rx'].get(c, b'')),
                                                          'unparseable' if rs is None else repr([len(b) for b in bodies])), 'large'))
            return True
    return False


CONTINUES = [pyhttp.serialize(pyhttp.build([ver, 0, []])) for ver in (0, 1)]


def server_generated(raw, sl, body):
    """the replies the server produces itself have fixed shapes: the bare 100 Continue of either version, the 400 with
    its JSON explanation, a 500, the fixed 503"""
    if raw in CONTINUES or raw == SERVER_FULL:
        return True
    if sl == b'HTTP/1.1 400 ' and body.startswith(b'{ "error": "') and body.endswith(b'All previous unanswered requests will be dropped." }'):
        return True
    return sl == b'HTTP/1.1 500 '


def static_cases(prop, rng, tier):
    """every static response shape the generators know, answered to the first of two pipelined requests, an echo to the
    second: the client must receive exactly the two serialisations"""
    out = []
    for resp in RESPS:
        for _ in range(2 if tier == 'quick' else 20):
            h = Hist(rng)
            c = h.connect()
            h.ops.append([11, 4])
            h.request(c, pipelined=2, poll_between=False)
            h.ops.append([11, 8])
            first = rng.random() < 0.5
            if first:
                h.ops += [[7, 0, resp], [12, 0]]
            else:
                h.ops += [[12, 0], [7, 0, resp]]
            if rng.random() < 0.5:
                h.ops.append([8])
            h.finish()
            out.append(prop.mk(h, 0, {'kind': 'static-answer-shapes'}))
    return out


def check_client_bytes(prop, t, a, v, clients=None, complete=False):
    """C07's oracle: every byte a client receives belongs to a well-formed response that is either the
    application's answer to one of that client's own requests (at most once, in the order supplied) or a
    server-generated 100/400/500/503"""
    for c, data in a['rx'].items():
        if clients is not None and c not in clients:
            continue
        rs = pyhttp.read_all(data)
        if rs is None:
            # the last response may be cut by the moment of the drain only if more is coming; all our histories end quiescent
            v.append(prop.viol(t, 'client %d receives a sequence of well-formed responses' % c, repr(data[-200:]), 'malformed'))
            continue
        # the raw bytes of each response, to compare static answers byte for byte
        raws = []
        rest = data
        while rest:
            one = pyhttp.read_response(rest)
            raws.append(rest[:len(rest) - len(one[1])])
            rest = one[1]
        statics = list(a.get('statics', {}).get(c, []))
        sk = 0
        want = [u for (u, echo) in a['answered'].get(c, []) if echo]
        k = 0
        for ri, (sl, hs, body) in enumerate(rs):
            if not body.startswith(b'echo:'):
                # a static answer supplied for one of this client's requests (in order, at most once), or a reply the
                # server generates itself (100, 400, 500, 503)
                raw = raws[ri]
                if raw in statics[sk:]:
                    sk = statics.index(raw, sk) + 1
                    continue
                if raw in a.get('statics', {}).get(-1, []):
                    continue
                if not server_generated(raw, sl, body):
                    v.append(prop.viol(t, 'client %d: every response that is not server-generated is, byte for byte, a response the '
                                       'application supplied for one of its requests (in order, at most once)' % c,
                                       repr(raw[:160]), 'foreign-response'))
                    break
                continue
            if body.startswith(b'echo:'):
                uri = body[5:]
                if not re.match(rb'/c\d+/', uri):
                    continue      # an untagged request the client sent itself (malformed-looking but accepted by the grammar)
                if not uri.startswith(b'/c%d/' % c):
                    v.append(prop.viol(t, 'client %d only receives answers to its own requests' % c, 'answer to ' + repr(uri), 'misrouted'))
                    break
                if k < len(want) and uri == want[k]:
                    k += 1
                else:
                    v.append(prop.viol(t, 'answers for client %d at most once each and in the order supplied: %r' % (c, want[k:k + 3]),
                                       'got ' + repr(uri), 'order-or-duplicate'))
                    break
            else:
                code = sl.split(b' ')[1] if b' ' in sl else b''
                # static application answers (op 7) and server-generated replies
                if code not in (b'100', b'400', b'500', b'503', b'200', b'204', b'404', b'401'):
                    v.append(prop.viol(t, 'a known status', repr(sl), 'unknown-response'))
                    break
        else:
            if complete and sk < len(statics):
                v.append(prop.viol(t, 'client %d receives every supplied response in full (%d static answers supplied)' % (c, len(statics)),
                                   '%d of them found in what it received' % sk, 'static-delivery'))


class C07(ServerProp):
    pid = 'C07'
    rule = ('histories of up to 4 clients x {connect, send piece, close, half-close, drain} x application {poll, respond to any '
            'outstanding request, flush}: exhaustive short histories over a small op alphabet, random longer ones, and the '
            'family "client closes with requests in flight, a new client connects, the application answers late"; responses larger than the socket buffer (short writes), also pipelined; every static response shape answered on a live connection (compared byte for byte); a response cut by a would-block during a flush, then a late answer; answers supplied around a poll; adversarial clients sending every malformed-request kind, padded Content-Length names and request-looking bodies; every '
            'application answer echoes the URI (client tag + sequence) of the request it answers; non-trivial = at least two '
            'clients or a client that goes away')

    def cases(self, rng, tier):
        out = []
        n = 500 if tier == 'quick' else 20000
        for _ in range(n):
            h = well_behaved(rng) if rng.random() < 0.5 else adversarial(rng)
            out.append(self.mk(h, 0, {'kind': 'random'}))
        # close with requests in flight + reconnect + late answers
        for _ in range(200 if tier == 'quick' else 8000):
            h = Hist(rng)
            a = h.connect()
            b = h.connect()
            h.ops.append([11, 6])
            h.request(a, pipelined=rng.choice([1, 2, 3]), poll_between=False)
            h.request(b, poll_between=False)
            h.ops.append([11, 6])
            if rng.random() < 0.6:
                for _ in range(rng.randint(1, 2)):
                    h.ops.append([12, rng.randint(0, 3)])
                if rng.random() < 0.6:
                    # the answer is written to the client, which goes away without reading it (the kernel then reports
                    # an error condition on the server's end, not just a hang-up)
                    h.ops.append([11, 6])
            h.ops.append([rng.choice([2, 2, 3]), a])
            if a in h.alive:
                h.alive.remove(a)
            if rng.random() < 0.7:
                h.ops.append([11, 6])
            for _ in range(rng.randint(2, 8)):
                q = rng.random()
                if q < 0.45:
                    h.ops.append([12, rng.randint(0, 5)])
                elif q < 0.75:
                    h.ops.append([11, 4])
                else:
                    c = h.connect()
                    h.ops.append([11, 4])
                    if rng.random() < 0.5:
                        h.request(c, poll_between=False)
                        h.ops.append([11, 4])
            for c in list(h.alive):
                if rng.random() < 0.6:
                    h.drain(c)
            h.finish()
            out.append(self.mk(h, 0, {'kind': 'close-in-flight+reconnect'}))
        # the same at capacity: ten entries, one of them a client that went away with a request in flight; another
        # client leaves, a new one takes the freed descriptor number, the old request is answered late
        for _ in range(40 if tier == 'quick' else 1500):
            h = Hist(rng)
            cs = [h.connect() for _ in range(10)]
            h.ops.append([11, 14])
            a = rng.choice(cs)
            h.request(a, pipelined=rng.choice([1, 2]), poll_between=False)
            h.ops.append([11, 6])
            h.ops.append([rng.choice([2, 2, 3]), a])
            h.alive.remove(a)
            h.ops.append([11, 6])
            if rng.random() < 0.7:
                b = rng.choice([c for c in cs if c != a])
                h.ops.append([2, b])
                h.alive.remove(b)
                h.ops.append([11, 6])
            n = h.connect()
            h.ops.append([11, 6])
            if rng.random() < 0.6:
                h.request(n, poll_between=False)
                h.ops.append([11, 6])
            for _ in range(rng.randint(1, 4)):
                h.ops.append([12, rng.randint(0, 3)])
                h.ops.append([11, 4])
            h.drain(n)
            h.finish()
            out.append(self.mk(h, 0, {'kind': 'capacity-close-in-flight+reconnect'}))
        # exhaustive short histories over a small alphabet
        req0 = b'GET /c0/r0 HTTP/1.1\r\n\r\n'
        req1 = b'PUT /c1/r0 HTTP/1.1\r\nContent-Length: 2\r\n\r\nhi'
        alpha = [[1, 0, req0[:9]], [1, 0, req0[9:]], [1, 1, req1], [2, 0], [3, 1], [6], [12, 0], [5, 1], [0, 2], [8]]
        depth = 4 if tier == 'quick' else 5
        import itertools
        idx = 0
        for seq in itertools.product(range(len(alpha)), repeat=depth):
            idx += 1
            if tier == 'quick' and idx % 9 != 0:
                continue
            if sum(1 for k in seq if alpha[k][0] == 0) > 1:
                continue
            ops = [[0, 0], [0, 1], [6]] + [alpha[k] for k in seq] + [[11, 6], [12, 0], [12, 0], [11, 6], [5, 1]]
            h = Hist(rng)
            h.ops = ops
            h.sent = {}
            out.append(self.mk(h, 0, {'kind': 'exhaustive-%d' % depth}))
        # responses larger than the socket buffer (short writes on the real socket), also with a second answer queued
        # behind the partially written one
        out += large_cases(self, rng, tier, 4, 40)
        out += static_cases(self, rng, tier)
        # a client pipelines many requests and does not read; the answers exceed its socket buffer, the application flushes
        # (the write would block: the connection is given up, the unsent rest dropped), answers one more request late, then the
        # client reads everything: what it gets is a prefix of the supplied responses in order -- never a cut response followed
        # by a later one.  Outside the executable kernel model (K3): decided on the implementation alone.
        for _ in range(3 if tier == 'quick' else 25):
            h = Hist(rng)
            c = h.connect()
            h.ops.append([11, 4])
            nreq = rng.choice([10, 12, 14])
            h.request(c, pipelined=nreq, poll_between=False)
            h.ops.append([11, 40])
            resps = []
            for k in range(nreq - 2):
                r = [1, 1, [[0, bytes([65 + k]) * 65536]]]
                resps.append(r)
                h.ops.append([7, 0, r])
            h.ops.append([8])
            for k in range(rng.randint(1, 2)):
                r = [1, 1, [[0, b'late-%d' % k]]]
                resps.append(r)
                h.ops.append([7, 0, r])
                h.ops.append([11, 4])
            for _ in range(20):
                h.ops.append([5, c])
                h.ops.append([11, 4])
            h.ops.append([5, c])
            out.append(self.mk(h, 0, {'kind': 'cut-then-late-answer', 'oracle_only': True, 'client': c,
                                      'supplied': resps}))
        # three or more pipelined requests, some answered, a single poll (which sends one answer), the rest answered,
        # then everything is delivered: the client must see the answers in the order they were supplied
        for _ in range(150 if tier == 'quick' else 5000):
            h = Hist(rng)
            cs = [h.connect() for _ in range(rng.randint(1, 2))]
            h.ops.append([11, 4])
            for c in cs:
                h.request(c, pipelined=rng.choice([3, 4, 5]), poll_between=False)
            h.ops.append([11, 8])
            for _ in range(rng.randint(2, 3)):
                h.ops.append([12, rng.randint(0, 7)])
            h.ops.append([6])
            for _ in range(rng.randint(1, 3)):
                h.ops.append([12, rng.randint(0, 7)])
                if rng.random() < 0.5:
                    h.ops.append([6])
            h.finish()
            out.append(self.mk(h, 0, {'kind': 'pipelined-answers-around-a-poll'}))
        return out

    def oracle(self, cases, impl):
        v = []
        for cid, t, m in cases:
            a = self.analyse(t, impl.get(cid, []))
            if m.get('kind') == 'large-response':
                if a['errs']:
                    v.append(self.viol(t, 'no call fails', a['errs'][0][1], 'call-failed'))
                else:
                    large_oracle(self, t, m, a, v)
                continue
            if m.get('kind') == 'cut-then-late-answer':
                want = b''.join(pyhttp.serialize(pyhttp.build(r)) for r in m['supplied'])
                got = a['rx'].get(m['client'], b'')
                if a['errs']:
                    v.append(self.viol(t, 'no call fails', a['errs'][0][1], 'call-failed'))
                elif want[:len(got)] != got:
                    k = next(i for i in range(len(got)) if i >= len(want) or got[i] != want[i])
                    v.append(self.viol(t, 'what the client receives is a prefix of the supplied responses in the order supplied',
                                       'after %d matching bytes: %r' % (k, got[k:k + 60]), 'cut-then-late'))
                continue
            check_client_bytes(self, t, a, v)
        return v


class C08(ServerProp):
    pid = 'C08'
    rule = ('well-behaved histories: 1..4 clients keep their connections open and send only well-formed requests (split at '
            'arbitrary points, pipelined, with and without bodies and Expect); the application answers immediately, late, in '
            'batches, out of order; polls are irregular (single polls and polls to quiescence), flush_outgoing_writes follows '
            'a quarter of the answers; polling only when the epoll descriptor is readable (poll(2)); responses up to 3 KB; '
            'plus a few histories with responses of 250 KB..1.5 MB (beyond the socket buffer: not modelled, K3 -- these are '
            'decided by the implementation-level oracle alone and excluded from the model comparison), also with a second answer queued behind the half-written one; every static response shape (204/100 with a body, empty, multi-byte, > 1 KiB) compared byte for byte; requests carry ignored header values; non-trivial = at least two clients')

    def cases(self, rng, tier):
        out = []
        for _ in range(700 if tier == 'quick' else 30000):
            h = well_behaved(rng)
            out.append(self.mk(h, 0, {'kind': 'well-behaved-%d' % h.next_client}))
        # respond immediately followed by flush, then poll (the F3 family)
        for _ in range(100 if tier == 'quick' else 3000):
            h = Hist(rng)
            c = h.connect()
            h.ops.append([6])
            for _ in range(rng.randint(1, 4)):
                h.request(c, poll_between=False)
                h.ops.append([11, 4])
                h.ops.append([12, 0])
                h.ops.append([8])
                h.ops.append([6])
                h.ops.append([6])
                h.drain(c)
            h.finish()
            out.append(self.mk(h, 0, {'kind': 'respond-flush-poll'}))
        # pipelined requests answered in a batch, then flush, then the client reads without any polling
        for _ in range(100 if tier == 'quick' else 3000):
            h = Hist(rng)
            cs = [h.connect() for _ in range(rng.randint(1, 2))]
            h.ops.append([11, 4])
            for c in cs:
                h.request(c, pipelined=rng.choice([2, 3, 4]), poll_between=False)
            h.ops.append([11, 8])
            for _ in range(rng.randint(2, 8)):
                h.ops.append([12, rng.randint(0, 3)])
            h.ops.append([8])
            for c in cs:
                h.ops.append([5, c])
            h.finish()
            out.append(self.mk(h, 0, {'kind': 'batch-flush-drain'}))
        out += large_cases(self, rng, tier, 6, 60)
        out += static_cases(self, rng, tier)
        return out

    def oracle(self, cases, impl):
        v = []
        for cid, t, m in cases:
            lines = impl.get(cid, [])
            a = self.analyse(t, lines)
            if a['errs']:
                v.append(self.viol(t, 'polling and responding never fail for well-behaved clients', a['errs'][0][1], 'call-failed'))
                continue
            if m.get('kind') == 'large-response':
                if not large_oracle(self, t, m, a, v):
                    finals = [ln for (i, ln) in a['polls'][-2:]]
                    if len(finals) == 2 and not all(x.endswith('blocked') for x in finals):
                        v.append(self.viol(t, 'epoll stops signalling once no input, output or unanswered request remains',
                                           ' / '.join(finals)[:300], 'spin'))
                continue
            # each complete request yielded exactly once
            for c, n in m.get('sent', {}).items():
                got = [u for u in a['yielded'] if u.startswith(b'/c%d/' % int(c))]
                want = [b'/c%d/r%d' % (int(c), k) for k in range(n)]
                if sorted(got) != sorted(want):
                    v.append(self.viol(t, 'client %s: each complete request yielded exactly once: %d requests' % (c, n),
                                       repr(got)[:300], 'yield-count'))
                    break
            else:
                # every answer received in full once the client reads
                for c, ans in a['answered'].items():
                    rs = pyhttp.read_all(a['rx'].get(c, b''))
                    echoes = [b[5:] for (_, _, b) in (rs or []) if b.startswith(b'echo:')]
                    want = [u for (u, e) in ans if e]
                    if rs is None or echoes != want:
                        v.append(self.viol(t, 'client %d receives every supplied response in full: %r' % (c, want[:4]),
                                           repr(echoes[:6]) if rs is not None else 'unparseable bytes', 'delivery'))
                        break
                else:
                    # static answers arrive byte for byte, all of them
                    nv = len(v)
                    check_client_bytes(self, t, a, v, clients=[c for c in a['rx'] if c in m.get('alive', [])], complete=True)
                    if len(v) > nv:
                        continue
                    # no stall: when the epoll descriptor has stopped signalling, a client that has sent the complete
                    # head of an Expect request has received its 100 Continue
                    stalled = None
                    for (c, nsent, got) in a['quiet_drains']:
                        heads = m.get('expect_heads', {}).get(c, m.get('expect_heads', {}).get(str(c), []))
                        due = sum(1 for off in heads if off <= nsent)
                        have = got.count(b' 100 \r\n')
                        if have < due:
                            stalled = (c, due, have)
                            break
                    if stalled:
                        v.append(self.viol(t, 'client %d: %d interim responses due once the server is quiescent' % stalled[:2],
                                           'received %d (unsent output while the epoll descriptor does not signal)' % stalled[2], 'stall'))
                        continue
                    # flushing delivers every queued response that fits the socket buffer, without polling
                    short = None
                    for (c, got, want) in a['flush_drains']:
                        rs = pyhttp.read_all(got)
                        echoes = [b[5:] for (_, _, b) in (rs or []) if b.startswith(b'echo:')]
                        if echoes != want:
                            short = (c, want, echoes)
                            break
                    if short:
                        v.append(self.viol(t, 'after flush_outgoing_writes client %d has received every answer supplied so far: %r' % (short[0], short[1][:4]),
                                           repr(short[2][:4]), 'flush'))
                        continue
                    # no spin: once nothing is left the epoll descriptor stops signalling
                    finals = [ln for (i, ln) in a['polls'][-2:]]
                    if len(finals) == 2 and not all(x.endswith('blocked') for x in finals):
                        v.append(self.viol(t, 'epoll stops signalling once no input, output or unanswered request remains',
                                           ' / '.join(finals)[:300], 'spin'))
                    elif a['end'] and 'FDLEAK' in a['end']:
                        v.append(self.viol(t, 'descriptor census', a['end'], 'fd'))
        return v


class C09(ServerProp):
    pid = 'C09'
    rule = ('a witness client performing request/response round trips while up to 3 other clients send valid, invalid and '
            'partial bytes, shut down either direction, close abruptly, stop reading, and the application answers their '
            'requests late or never; every malformed-request kind of the connection-level generator and a fixed list of degenerate lines between two witness round trips; over-long non-ASCII header lines at random offsets; responses beyond the socket buffer; a watchdog reports calls that do not return; non-trivial = at least one adversarial action')

    def cases(self, rng, tier):
        out = []
        for _ in range(800 if tier == 'quick' else 30000):
            h = adversarial(rng)
            out.append(self.mk(h, 0, {'kind': 'witness+adversaries', 'witness': h.witness}))
        # a client that pipelines requests and never reads answers that exceed its socket buffer; the application then
        # flushes.  Outside the kernel model (K3): decided on the implementation alone (every call must return, the
        # witness is still served)
        for _ in range(4 if tier == 'quick' else 40):
            h = Hist(rng)
            w = h.connect()
            g = h.connect()
            h.ops.append([11, 4])
            h.request(g, pipelined=rng.choice([6, 8]), poll_between=False)
            h.ops.append([11, 8])
            body = b'0123456789abcdef' * (rng.choice([65536, 131072]) // 16)
            for _ in range(8):
                h.ops.append([7, 0, [1, 1, [[0, body]]]])
                if rng.random() < 0.5:
                    h.ops.append([11, 4])
            h.ops.append([11, 8])
            h.ops.append([8])
            h.ops.append([11, 8])
            h.request(w, poll_between=False)
            h.finish(clients=[w])
            h.witness = w
            out.append(self.mk(h, 0, {'kind': 'greedy-never-reads-then-flush', 'witness': w, 'oracle_only': True}))
        # a client that can no longer be written to (it shut down its read side; the kernel reports no hang-up for that)
        # with pipelined requests answered one by one while nothing else happens: it must be released by the poll that
        # follows the last answer, without waiting for an unrelated event
        for _ in range(30 if tier == 'quick' else 1000):
            h = Hist(rng)
            w = h.connect()
            z = h.connect()
            h.ops.append([11, 4])
            if rng.random() < 0.5:
                h.request(w, poll_between=False)
                h.ops.append([11, 6])
                h.ops.append([12, 0])
                h.ops.append([11, 6])
                h.drain(w)
            h.request(z, pipelined=rng.choice([2, 3]), poll_between=False)
            h.ops.append([11, 6])
            h.ops.append([4, z])
            for _ in range(4):
                h.ops.append([12, 0])
                h.ops.append([11, 4])
            h.ops.append([6])
            h.witness = w
            out.append(self.mk(h, 0, {'kind': 'unwritable-client-answered-quietly', 'witness': w}))
        # every kind of malformed request the connection-level generator knows (several draws each), sent by one client
        # between two round trips of the witness
        fixed = [b'GET / \r\n\r\n', b'PUT /x    \r\n\r\n', b'GET /\r\n\r\n', b'GET  \r\n', b' \r\n', b'\r\n\r\n\r\n', b'GET / HTTP/1.1 \r\n\r\n',
                 b'GET / HTTP/1.\r\n\r\n', b'PUT / HTTP/1.1\r\nContent-Length:\r\n\r\n', b'PUT / HTTP/1.1\r\nContent-Length: \r\n\r\n',
                 b'GET / HTTP/1.1\r\nAccept-Encoding: gzip;q=\r\n\r\n', b'GET / HTTP/1.1\r\n:\r\n\r\n', b'GET / HTTP/1.1\r\n: \r\n\r\n',
                 b'GET / HTTP/1.1\r\nAccept:\r\n\r\n', b'GET / HTTP/1.1\r\nExpect:\r\n\r\n', b'GET / HTTP/1.1\r\nTransfer-Encoding:\r\n\r\n']
        for kind in list(reqgen.CORRUPTIONS) + [None] * len(fixed):
            for rep in range((3 if tier == 'quick' else 40) if kind is not None else 1):
                h = Hist(rng)
                w = h.connect()
                o = h.connect()
                h.ops.append([11, 6])
                h.request(w, poll_between=False)
                h.ops.append([11, 8])
                h.ops.append([12, 0])
                h.ops.append([11, 8])
                h.drain(w)
                if kind is None:
                    bad = fixed.pop()
                    h.ops.append([1, o, bad])
                else:
                    h.ops.append([1, o, reqgen.gen_bad_request(rng, 51200, kind)[0]])
                h.ops.append([11, 8])
                if rng.random() < 0.5:
                    h.ops.append([1, o, b'GET /c%d/after HTTP/1.1\r\n\r\n' % o])
                    h.ops.append([11, 8])
                h.request(w, poll_between=False)
                h.finish(clients=[w])
                h.ops.append([5, o])
                h.witness = w
                out.append(self.mk(h, 0, {'kind': 'witness+malformed:' + (kind or 'fixed'), 'witness': w}))
        # responses larger than the socket buffer, delivered over many short writes while the client reads in rounds
        out += large_cases(self, rng, tier, 2, 20)
        return out

    def oracle(self, cases, impl):
        v = []
        for cid, t, m in cases:
            a = self.analyse(t, impl.get(cid, []))
            bad = [e for e in a['errs'] if ' poll ' in e[1] or e[1].startswith(('hang', 'panic'))]
            if bad:
                v.append(self.viol(t, 'the polling function (and every other call) keeps returning normally', bad[0][1], 'poll-failed'))
                continue
            if m.get('kind') == 'large-response':
                large_oracle(self, t, m, a, v)
                continue
            w = m['witness']
            n = m['sent'].get(w, m['sent'].get(str(w), 0))
            got = [u for u in a['yielded'] if u.startswith(b'/c%d/' % w)]
            if len(got) != n:
                v.append(self.viol(t, 'all %d requests of the witness are yielded' % n, repr(got)[:300], 'witness-starved'))
                continue
            rs = pyhttp.read_all(a['rx'].get(w, b''))
            echoes = [b[5:] for (_, _, b) in (rs or []) if b.startswith(b'echo:')]
            want = [u for (u, e) in a['answered'].get(w, []) if e]
            if echoes != want:
                v.append(self.viol(t, 'the witness receives its responses: %r' % want[:4], repr(echoes[:6]), 'witness-delivery'))
                continue
            # released as soon as the application has answered what was yielded: at the end (everything answered,
            # polled to quiescence) no closed connection with nothing in flight remains
            if a['end'] and re.search(r'[\[,]2:', a['end']) and not a['outstanding']:
                v.append(self.viol(t, 'a connection whose client is gone is released once its requests are answered', a['end'], 'not-released'))
        return v


class C10(ServerProp):
    pid = 'C10'
    rule = ('9..13 clients around the capacity boundary, connect+close before the poll, closes with unread input, unsent '
            'output and in-flight requests, refills; a dead client with an unanswered request in a full table; an unwritable client answered request by request; a large response half written while the table fills and empties; non-trivial = more than 10 clients or a close')

    def cases(self, rng, tier):
        out = []
        for _ in range(350 if tier == 'quick' else 12000):
            h = capacity(rng)
            out.append(self.mk(h, 0, {'kind': 'capacity-%d' % min(h.next_client, 14)}))
        # the table is full and one entry is a dead client whose request is still unanswered: it still occupies a
        # slot (the next client is refused); the slot is regained once the answer is supplied
        for _ in range(40 if tier == 'quick' else 1500):
            h = Hist(rng)
            cs = [h.connect() for _ in range(10)]
            h.ops.append([11, 14])
            z = rng.choice(cs)
            h.request(z, poll_between=False)
            h.ops.append([11, 4])
            h.ops.append([rng.choice([2, 3]), z])
            h.alive.remove(z)
            h.ops.append([11, 4])
            refused = h.connect()
            h.ops.append([11, 4])
            h.drain(refused)
            h.alive.remove(refused)
            h.ops.append([12, 0])
            h.ops.append([11, 4])
            late = h.connect()
            h.ops.append([11, 4])
            h.request(late, poll_between=False)
            h.ops.append([11, 4])
            h.ops.append([12, 0])
            h.ops.append([11, 4])
            h.drain(late)
            h.finish()
            out.append(self.mk(h, 0, {'kind': 'full-with-unanswered-dead-client', 'refused': refused, 'late': late}))
        # a client that can no longer be written to (it shut down its read side) with pipelined requests answered one
        # by one: no call fails, its slot is regained once everything is answered and it has gone
        for _ in range(30 if tier == 'quick' else 1000):
            h = Hist(rng)
            cs = [h.connect() for _ in range(rng.choice([3, 10]))]
            h.ops.append([11, 14])
            z = rng.choice(cs)
            h.request(z, pipelined=rng.choice([2, 3]), poll_between=False)
            h.ops.append([11, 6])
            h.ops.append([4, z])
            for _ in range(3):
                h.ops.append([12, 0])
                h.ops.append([11, 4])
                h.ops.append([6])
            h.ops.append([2, z])
            h.alive.remove(z)
            h.ops.append([11, 6])
            late = h.connect()
            h.ops.append([11, 4])
            h.request(late, poll_between=False)
            h.ops.append([11, 4])
            h.ops.append([12, 0])
            h.ops.append([11, 4])
            h.drain(late)
            h.finish()
            out.append(self.mk(h, 0, {'kind': 'unwritable-client-pipelined', 'late': late}))
        # ten clients each send a well-formed request and a malformed one in one segment, then leave: every slot is
        # regained (requests dropped with the 400 are not owed an answer), a newcomer is served
        for _ in range(6 if tier == 'quick' else 150):
            h = Hist(rng)
            cs = [h.connect() for _ in range(10)]
            h.ops.append([11, 14])
            for c in cs:
                bad = rng.choice([b'nonsense\r\n\r\n', b'GET  /x HTTP/1.1\r\n\r\n', b'PUT /x HTTP/1.1\r\nContent-Length: x\r\n\r\n'])
                h.ops.append([1, c, b'GET /c%d/r0 HTTP/1.1\r\n\r\n' % c + bad])
            h.ops.append([11, 14])
            for c in cs:
                h.ops.append([2, c])
                h.alive.remove(c)
            h.ops.append([11, 14])
            h.ops.append([11, 4])
            late = h.connect()
            h.ops.append([11, 4])
            h.request(late, poll_between=False)
            h.ops.append([11, 6])
            h.ops.append([12, 0])
            h.ops.append([11, 6])
            h.ops.append([5, late])
            out.append(self.mk(h, 0, {'kind': 'full-of-clients-that-sent-garbage', 'late': late}))
        # a response larger than the socket buffer is half written to a slow reader while the table fills up, the other
        # nine clients leave and a newcomer arrives: the newcomer is served, the slow reader still gets everything
        # (outside the executable kernel model, decided on the implementation alone)
        for _ in range(3 if tier == 'quick' else 30):
            h = Hist(rng)
            slow = h.connect()
            h.ops.append([11, 4])
            h.request(slow, poll_between=False)
            h.ops.append([11, 8])
            size = rng.choice([300000, 700000])
            body = (b'0123456789abcdef' * (size // 16 + 1))[:size]
            h.ops.append([7, 0, [1, 1, [[0, body]]]])
            h.ops.append([11, 6])
            others = [h.connect() for _ in range(9)]
            h.ops.append([11, 14])
            h.ops.append([5, slow])
            h.ops.append([11, 6])
            for c in others:
                h.ops.append([2, c])
                h.alive.remove(c)
            h.ops.append([11, 6])
            h.ops.append([11, 6])
            late = h.connect()
            h.ops.append([11, 4])
            h.request(late, poll_between=False)
            h.ops.append([11, 6])
            h.ops.append([12, 0])
            h.ops.append([11, 6])
            h.ops.append([5, late])
            for _ in range(size // 60000 + 6):
                h.ops.append([11, 6])
                h.ops.append([5, slow])
            out.append(self.mk(h, 0, {'kind': 'large-at-capacity', 'oracle_only': True, 'size': size, 'slow': slow, 'newcomer': late}))
        return out

    def oracle(self, cases, impl):
        v = []
        for cid, t, m in cases:
            lines = impl.get(cid, [])
            a = self.analyse(t, lines)
            if a['errs']:
                v.append(self.viol(t, 'no call fails', a['errs'][0][1], 'call-failed'))
                continue
            if m.get('kind') == 'large-at-capacity':
                big = (b'0123456789abcdef' * (m['size'] // 16 + 1))[:m['size']]
                rs = pyhttp.read_all(a['rx'].get(m['slow'], b''))
                if rs is None or [b for (_, _, b) in rs] != [big]:
                    v.append(self.viol(t, 'the slow reader receives its %d-byte response in full' % m['size'],
                                       'received %d bytes' % len(a['rx'].get(m['slow'], b'')), 'large'))
                elif b'echo:/c%d/r0' % m['newcomer'] not in a['rx'].get(m['newcomer'], b''):
                    v.append(self.viol(t, 'capacity is regained: the newcomer (client %d) is served' % m['newcomer'],
                                       repr(a['rx'].get(m['newcomer'], b''))[:200], 'regain'))
                continue
            end = a['end'] or ''
            mm = re.search(r'nconn=(\d+)', end)
            if mm and int(mm.group(1)) > 10:
                v.append(self.viol(t, 'at most 10 connections', end, 'cap'))
            if 'FDLEAK' in end:
                v.append(self.viol(t, 'descriptors held = listener + epoll + one per open connection', end, 'fd-accounting'))
            if re.search(r'[\[,]2:', end) and not a['outstanding']:
                v.append(self.viol(t, 'a connection whose client has gone is released once everything yielded from it is answered',
                                   end, 'not-released'))
            # the refused clients: exactly the 503 message, then disconnected
            ops = t[3]
            first_poll = next((i for i, o in enumerate(ops) if o[0] in (6, 11)), None)
            nconn0 = sum(1 for o in ops[:first_poll] if o[0] == 0) if first_poll is not None else 0
            closed0 = set(o[1] for o in ops[:first_poll] if o[0] == 2) if first_poll is not None else set()
            for c in range(10, nconn0):
                if c in closed0:
                    continue
                if a['rx'].get(c) != SERVER_FULL or a['status'].get(c) != 'eof':
                    v.append(self.viol(t, 'client %d (over capacity) receives exactly the 503 message and is disconnected' % c,
                                       repr(a['rx'].get(c))[:200] + ' ' + str(a['status'].get(c)), 'refusal'))
                    break
            if 'late' in m and 'refused' not in m:
                c = m['late']
                if b'echo:/c%d/r0' % c not in a['rx'].get(c, b''):
                    v.append(self.viol(t, 'capacity is regained once everything yielded from the departed client is answered: client %d is served' % c,
                                       repr(a['rx'].get(c))[:160], 'regain'))
            if 'refused' in m:
                c = m['refused']
                if a['rx'].get(c) != SERVER_FULL or a['status'].get(c) != 'eof':
                    v.append(self.viol(t, 'client %d connects while 10 entries are held (one of them a dead client with an unanswered request): 503 and disconnect' % c,
                                       repr(a['rx'].get(c))[:160] + ' ' + str(a['status'].get(c)), 'refusal-zombie'))
                c = m['late']
                if b'echo:/c%d/r0' % c not in a['rx'].get(c, b''):
                    v.append(self.viol(t, 'capacity is regained once the answer is supplied: client %d is served' % c,
                                       repr(a['rx'].get(c))[:160], 'regain'))
            for c in range(0, min(10, nconn0)):
                if a['rx'].get(c, b'').startswith(b'HTTP/1.1 503'):
                    v.append(self.viol(t, 'existing connections are not disturbed', 'client %d got a 503' % c, 'refusal'))
                    break
        return v


class C18(ServerProp):
    pid = 'C18'
    rule = ('C08/C09/C10 histories with the kill switch registered, signalled at a random point (idle, partial requests, unsent '
            'output, unanswered requests, at capacity with a client waiting), followed by repeated polling; each history is '
            'also run without a kill switch and the two runs are compared up to the signal; kill at capacity with every descriptor ready; kill with a large response half written; kill after the application answered one request twice (the surplus answer is refused with Underflow); non-trivial = kill signalled '
            'with at least one connection open')

    def cases(self, rng, tier):
        out = []
        pair = 0
        # at capacity, every descriptor ready (partial requests on all 10, an 11th client waiting), then the signal:
        # 12 descriptors are ready in one batch and the kill switch became ready last
        for k in range(12 if tier == 'quick' else 200):
            pair += 1
            ops = [[0, c] for c in range(10)] + [[11, 14]]
            order = list(range(10))
            rng.shuffle(order)
            for c in order:
                ops.append([1, c, rng.choice([b'GET /c%d/r0 HT' % c, b'PUT /c%d/r0 HTTP/1.1\r\nContent-Le' % c, b'G'])])
            nready = rng.choice([10, 10, 10, 9, 7])
            ops = ops[:11 + nready] if nready < 10 else ops
            ops.append([0, 10])
            at = len(ops)
            hk = Hist(rng)
            hk.ops = ops + [[9], [6], [6], [11, 3], [6]]
            hk.sent = {}
            out.append(self.mk(hk, 1, {'kind': 'kill-at-capacity-all-ready', 'pair': pair, 'at': at, 'role': 'kill'}))
        # unsent output that does not fit the socket buffer: a response is half written, the client reads what has
        # arrived (the connection is writable again), then the signal (outside the executable kernel model: oracle only)
        for _ in range(3 if tier == 'quick' else 30):
            pair += 1
            h = Hist(rng)
            a0 = h.connect()
            h.ops.append([11, 4])
            h.request(a0, pipelined=rng.choice([1, 2]), poll_between=False)
            h.ops.append([11, 8])
            size = rng.choice([300000, 700000])
            body = (b'0123456789abcdef' * (size // 16 + 1))[:size]
            h.ops.append([7, 0, [1, 1, [[0, body]]]])
            h.ops.append([11, 6])
            if rng.random() < 0.7:
                h.ops.append([5, a0])
            at = len(h.ops)
            hk = Hist(rng)
            hk.ops = h.ops + [[9], [6], [6], [11, 3], [5, a0], [6], [6]]
            hk.sent = {}
            out.append(self.mk(hk, 1, {'kind': 'kill-with-large-response-half-written', 'pair': pair, 'at': at, 'role': 'kill',
                                       'oracle_only': True}))
        # an application that answers one request TWICE (op 14 answers and keeps the request outstanding; the second answer is
        # refused with Underflow), on an idle connection whose client stays connected, then the signal: the refused answer
        # must not leave the server unable to report the shutdown (outside the executable model: oracle only)
        for _ in range(6 if tier == 'quick' else 100):
            pair += 1
            h = Hist(rng)
            a0 = h.connect()
            h.ops.append([11, 4])
            h.request(a0, pipelined=1, poll_between=False)
            h.ops.append([11, 8])
            h.ops.append([14, 0])
            h.ops.append([11, 6])
            if rng.random() < 0.6:
                h.ops.append([5, a0])
            for _ in range(rng.choice([1, 1, 2])):
                h.ops.append([rng.choice([12, 14]), 0])
            at = len(h.ops)
            hk = Hist(rng)
            hk.ops = h.ops + [[9], [6], [6], [11, 3], [5, a0], [6], [6]]
            hk.sent = {}
            out.append(self.mk(hk, 1, {'kind': 'kill-after-surplus-answer', 'pair': pair, 'at': at, 'role': 'kill',
                                       'oracle_only': True}))
        for _ in range(450 if tier == 'quick' else 15000):
            r = rng.random()
            h = well_behaved(rng) if r < 0.4 else (adversarial(rng) if r < 0.7 else capacity(rng))
            pair += 1
            ops = list(h.ops)
            at = rng.randint(1, max(1, len(ops) - 1))
            tail = []
            for _ in range(rng.randint(2, 6)):
                tail.append(rng.choice([[6], [6], [11, 3], [12, 0], [1, 0, b'GET /late HTTP/1.1\r\n\r\n'], [0, 90 + len(tail)]]))
            tail += [[6], [6]]
            hk = Hist(rng)
            hk.ops = ops[:at] + [[9]] + tail
            hk.sent = {}
            out.append(self.mk(hk, 1, {'kind': 'kill-at-%d%%' % (10 * (10 * at // len(ops))), 'pair': pair, 'at': at, 'role': 'kill'}))
            hn = Hist(rng)
            hn.ops = ops[:at]
            hn.sent = {}
            out.append(self.mk(hn, 0, {'kind': 'twin-without-switch', 'pair': pair, 'at': at, 'role': 'twin'}))
        return out

    def oracle(self, cases, impl):
        v = []
        pairs = {}
        for cid, t, m in cases:
            pairs.setdefault(m['pair'], {})[m['role']] = (cid, t, m, impl.get(cid, []))
        for p, d in pairs.items():
            if 'kill' not in d:
                continue
            cid, t, m, lines = d['kill']
            at = m['at']
            after = [ln for ln in lines if ' poll ' in ln and int(ln.split(' ')[2]) > at]
            bad = [ln for ln in after if not ln.endswith('poll Err(Shutdown)')]
            if bad or not after:
                v.append(self.viol(t, 'once signalled, every poll reports shutdown without blocking', (bad[0] if bad else 'no poll'), 'not-shutdown'))
                continue
            if 'twin' in d:
                tcid, tt, tm, tlines = d['twin']

                def strip(ls):
                    return [re.sub(r'^srv \d+ ', '', ln) for ln in ls if ln.split(' ')[2] != 'end' and int(ln.split(' ')[2]) < at]
                if strip(lines) != strip(tlines):
                    a, b = strip(lines), strip(tlines)
                    k = 0
                    while k < len(a) and k < len(b) and a[k] == b[k]:
                        k += 1
                    v.append(self.viol(t, 'before it is signalled the kill switch changes nothing: ' + (b[k] if k < len(b) else '<end>'),
                                       a[k] if k < len(a) else '<end>', 'not-inert'))
        return v

    def nontrivial(self, tree, meta, impl_lines):
        if meta.get('role') == 'kill' and any(o[0] == 0 for o in tree[3][:meta['at']]):
            return repr(tree[3])[:3000]
        return None
