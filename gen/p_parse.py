# C02 (grammar), C14 (one-shot vs connection), C03 (totality).
import pyhttp
import reqgen
from base import Prop
from p_conn import ConnProp, deliveries, parse_rd, C03Conn, small_stream


class C02(ConnProp):
    pid = 'C02'
    observables = 'deliveries (all fields verbatim) and the first parse error, for whole streams'
    rule = ('streams from the request grammar (1..6 pipelined requests) and every single-point corruption of the property\'s '
            'list (wrong/empty/lower-case method, missing or doubled SP, empty or non-UTF-8 URI, wrong version, stray CR or '
            'LF, missing colon, non-UTF-8 header bytes, Content-Length edge values, lines beyond the limit, truncation), plus '
            'pairs of simultaneous faults for the precedence rule; read in one go and byte by byte; non-trivial = distinct '
            'stream with at least one delivery or an error')

    def cases(self, rng, tier):
        out = []
        n = 1500 if tier == 'quick' else 80000
        for _ in range(n):
            limit = 51200 if rng.random() < 0.8 else rng.choice([0, 5, 1024])
            stream, kinds = reqgen.gen_stream(rng, limit, p_bad=0.5, long_lines=(rng.random() < 0.2))
            out.append(self.mk(limit, stream, [[2, 1 << 20]], {'kind': 'stream', 'stream_kinds': kinds}))
        # every corruption kind, alone and after a good request
        for kind in reqgen.CORRUPTIONS:
            for _ in range(12 if tier == 'quick' else 400):
                bad, _ = reqgen.gen_bad_request(rng, 51200, kind)
                pre = reqgen.gen_request(rng, 51200)[0] if rng.random() < 0.5 else b''
                s = pre + bad + (reqgen.gen_request(rng, 51200)[0] if rng.random() < 0.3 else b'')
                style = [[2, 1 << 20]] if (rng.random() < 0.7 or len(s) > 2500) else [[2, 1]]
                out.append(self.mk(51200, s, style, {'kind': 'corrupt:' + kind}))
        # two simultaneous faults in one request line (precedence)
        ms = [b'GET', b'get', b'', b'POST']
        us = [b'/', b'', b'\xff']
        vs = [b'HTTP/1.1', b'HTTP/2', b'']
        for m in ms:
            for u in us:
                for v in vs:
                    for sep in (b' ', b'  '):
                        s = m + sep + u + b' ' + v + b'\r\n\r\n'
                        out.append(self.mk(51200, s, [[2, 1 << 20]], {'kind': 'precedence'}))
        return out

    def oracle(self, cases, impl):
        v = []
        for cid, t, m in cases:
            d = deliveries(impl.get(cid, []))
            want = pyhttp.recognise_stream(bytes(t[3]), t[2])
            if d != want:
                k = 0
                while k < len(d) and k < len(want) and d[k] == want[k]:
                    k += 1
                v.append({'case': t, 'oracle': 'independent recogniser of the documented grammar (Python, from the property text)',
                          'expected': (want[k] if k < len(want) else '<nothing more>')[:300],
                          'observed': (d[k] if k < len(d) else '<nothing more>')[:300], 'signature': 'C02:grammar'})
        return v

    def nontrivial(self, tree, meta, impl_lines):
        return bytes(tree[3]) if deliveries(impl_lines) else None

    def extra_coverage(self, cases, impl):
        kinds = {}
        for cid, t, m in cases:
            d = deliveries(impl.get(cid, []))
            k = d[-1].split('(')[2].rstrip(')') if d and d[-1].startswith('Err(') else 'no-error'
            kinds[k] = kinds.get(k, 0) + 1
        return {'outcome_kinds': kinds}


class C14(ConnProp):
    pid = 'C14'
    observables = 'Request::try_from on a slice vs the first request a connection delivers for the same slice'
    rule = ('slices from the request grammar and its corruptions, with and without trailing bytes after the declared body, '
            'each run through Request::try_from (also with max_len around the slice length) and through a connection; '
            'non-trivial = distinct slice accepted by at least one of the two entry points')

    def cases(self, rng, tier):
        out = []
        n = 1500 if tier == 'quick' else 80000
        pair = 0
        for _ in range(n):
            r = rng.random()
            exact = False
            if r < 0.55:
                s, info = reqgen.gen_request(rng, 51200)
                exact = True
                if rng.random() < 0.3:
                    s += rng.choice([b'x', b'\r\n', b'GET / HTTP/1.1\r\n\r\n', b'trailing bytes'])
                    exact = False
            elif r < 0.9:
                s, bk = reqgen.gen_bad_request(rng, 51200)
                # corruptions confined to the request line leave a slice shaped like exactly one body-less request: should
                # a parser accept it after all, it consumes all of it, and then the two entry points must agree
                exact = bk in ('bad-version', 'lower-method', 'bad-method', 'empty-method', 'empty-uri', 'nonutf8-uri')
            else:
                s, _ = reqgen.gen_stream(rng, 51200, p_bad=0.2, max_req=2)
            if r < 0.55 and rng.random() < 0.08:
                # repeated Content-Length: the last acceptable value decides in both parsers, also against the limit
                m = rng.choice([b'PUT', b'PATCH'])
                nb = rng.choice([0, 1, 3, 40])
                s = m + b' /dup HTTP/1.1\r\n' + rng.choice([b'Content-Length: 60000\r\n', b'content-length: 51201\r\n', b'Content-Length: 7\r\n']) + \
                    rng.choice([b'', b'X-Token: abc\r\n']) + b'Content-Length: %d\r\n\r\n' % nb + b'z' * nb
                exact = True
            pair += 1
            out.append(([5, s], {'kind': 'oneshot', 'pair': pair, 'exact': exact}))
            out.append(([6, 51200, s, [[2, 1 << 20]]], {'kind': 'conn', 'pair': pair, 'exact': exact}))
            if rng.random() < 0.3:
                n2 = len(s) + rng.choice([-1, 0, 1, 100])
                if n2 >= 0:
                    out.append(([5, s, n2], {'kind': 'maxlen', 'pair': pair, 'len': len(s), 'n': n2}))
        # every prefix of a few small requests (the boundary of every slice operation of the one-shot parser)
        for full in (b'GET / HTTP/1.1\r\n\r\n', b'PUT /a HTTP/1.0\r\nContent-Length: 3\r\n\r\nabc', b'PATCH /b HTTP/1.1\r\nX: y\r\nContent-Length: 1\r\n\r\nzz',
                     b'GET /c HTTP/1.1\r\nContent-Length: 2\r\n\r\nhi', b'PUT /d HTTP/1.1\r\n\r\n\r\n'):
            for cut in range(len(full) + 1):
                s = full[:cut]
                pair += 1
                out.append(([5, s], {'kind': 'oneshot', 'pair': pair, 'exact': False}))
                out.append(([6, 51200, s, [[2, 1 << 20]]], {'kind': 'conn', 'pair': pair, 'exact': False}))
        # short request lines around the one-shot parser's minimum length x version tokens cut short or extended: whatever
        # one entry point accepts as exactly one request, the other must accept too
        for m in reqgen.METHODS:
            for u in (b'/', b'*', b'a', b'/a', b'/ab'):
                for ver in (b'HTTP/1.', b'HTTP/1', b'HTTP/1.10', b'HTTP/1.1x', b'HTTP/1.01', b'HTTP/1.1 ', b'HTTP/1.1\r', b'',
                            b'HTTP/1.2', b'http/1.1', b'HTTP/1.0', b'HTTP/1.1'):
                    for hdr in (b'', b'X-A: b\r\n'):
                        s = m + b' ' + u + b' ' + ver + b'\r\n' + hdr + b'\r\n'
                        pair += 1
                        out.append(([5, s], {'kind': 'oneshot', 'pair': pair, 'exact': True}))
                        out.append(([6, 51200, s, [[2, 1 << 20]]], {'kind': 'conn', 'pair': pair, 'exact': True}))
        return out

    def oracle(self, cases, impl):
        v = []
        pairs = {}
        for cid, t, m in cases:
            pairs.setdefault(m['pair'], {})[m['kind']] = (cid, t, m, impl.get(cid, []))
        for p, d in pairs.items():
            if 'oneshot' not in d or 'conn' not in d:
                continue
            ocid, ot, om, ol = d['oneshot']
            ccid, ct, cm, cl = d['conn']
            one = ol[0].split(' ', 2)[2] if ol else '<missing>'
            dl = deliveries(cl)
            s = bytes(ot[2])
            lines_ok = all(len(x) + 2 <= 1024 for x in s.split(b'\r\n\r\n')[0].split(b'\r\n'))
            if one.startswith('REQ') and lines_ok:
                first = dl[0] if dl else '<nothing delivered>'
                want = one.replace(' files=[]', '')
                if first != want:
                    v.append({'case': ct, 'oracle': 'one-shot accepted the slice: the connection\'s first request must be identical',
                              'expected': want[:300], 'observed': first[:300], 'signature': 'C14:oneshot=>conn'})
            if om['exact'] and len(dl) == 1 and dl[0].startswith('REQ'):
                is_get_body = (' m=Get ' in dl[0] and ' body=some:' in dl[0])
                want = 'ERR InvalidRequest' if is_get_body else dl[0] + ' files=[]'
                if one != want:
                    v.append({'case': ot, 'oracle': 'the connection turned the slice into exactly one request: the one-shot parser must agree (except GET with a body)',
                              'expected': want[:300], 'observed': one[:300], 'signature': 'C14:conn=>oneshot'})
            if 'maxlen' in d:
                mcid, mt, mm, ml = d['maxlen']
                got = ml[0].split(' ', 2)[2] if ml else '<missing>'
                want = 'ERR InvalidRequest' if mm['n'] <= mm['len'] else one
                if got != want:
                    v.append({'case': mt, 'oracle': 'max_len rule', 'expected': want[:300], 'observed': got[:300],
                              'signature': 'C14:maxlen'})
        return v

    def nontrivial(self, tree, meta, impl_lines):
        if any(' REQ ' in (' ' + l) for l in impl_lines):
            return (tree[0], bytes(tree[2] if tree[0] == 5 else tree[3]))
        return None


class C03(ConnProp):
    pid = 'C03'
    observables = 'every public parsing entry point and the connection state machine: a value or an error, never a panic; system calls per call'
    rule = ('random, grammar-derived and mutated byte strings with NUL/CR/LF/0x80-0xFF through Method/Version/MediaType/Encoding::'
            'try_from, Uri::get_abs_path, Headers::parse_header_line, Headers::try_from, Request::try_from (with max_len) and '
            'through connections driven by random sequences of reads (all schedules), writes, enqueues, clears and limit '
            'changes that continue after ParseError, StreamReadError and ConnectionClosed; streams up to 60 KiB; every call '
            'wrapped in catch_unwind, overflow checks on; non-trivial = distinct case that continues after an error or '
            'contains a non-ASCII/control byte')

    def cases(self, rng, tier):
        out = C03Conn.cases(rng, tier, self.mk)
        n = 2500 if tier == 'quick' else 100000
        alphas = [bytes(range(256)), b'\x00\r\n\x80\xff :', b'GET / HTTP/1.1\r\nContent-Length: 5\r\n\r\nabcde', b'\r\n', b'htp:/.a%\xc3\xa9']
        for _ in range(n):
            a = rng.choice(alphas)
            ln = rng.choice([0, 1, 2, 3, 5, 8, 13, 40, 100, 1000, 1100, 3000])
            bs = bytes(rng.choice(a) for _ in range(ln))
            r = rng.random()
            if r < 0.25:
                out.append(([1, rng.randint(0, 4), bs[:200]], {'kind': 'token-fn'}))
            elif r < 0.45:
                out.append(([2, [bs[i:i + 20] for i in range(0, min(len(bs), 120), 20)]], {'kind': 'header-lines'}))
            elif r < 0.6:
                out.append(([3, bs], {'kind': 'header-block'}))
            else:
                if rng.random() < 0.5:
                    good = bytearray(reqgen.gen_request(rng, 51200)[0])
                    for _ in range(rng.randint(0, 4)):
                        if good:
                            good[rng.randrange(len(good))] = rng.choice([0, 13, 10, 0x80, 0xff, 32, 58])
                    bs = bytes(good)
                    if rng.random() < 0.3:
                        bs = bs[:rng.randint(0, len(bs))]
                if rng.random() < 0.3:
                    out.append(([5, bs, rng.choice([0, 1, len(bs), len(bs) + 1, 10 ** 6])], {'kind': 'oneshot-maxlen'}))
                else:
                    out.append(([5, bs], {'kind': 'oneshot'}))
        # URI path extraction on absolute-form URIs with multi-byte characters around the authority
        hosts = [b'h', 'é'.encode(), 'hé'.encode(), 'éh'.encode(), 'éé'.encode(), '日本'.encode(), 'a😀'.encode(), b'', b'a.b:80']
        paths = [b'', b'/', b'/x', '/é'.encode(), b'/a/b', '/😀/'.encode()]
        for hst in hosts:
            for pth in paths:
                for pre in (b'http://', b'http:/', b'HTTP://', b''):
                    out.append(([1, 3, pre + hst + pth], {'kind': 'uri-nonascii'}))
                    out.append(([8, b'srv', b'', [[0, pth or b'/', 1]], [b'GET ' + pre + hst + pth + b' HTTP/1.1\r\n\r\n']], {'kind': 'router-uri-nonascii'}))
        # the CRLFCRLF-at-offset cases of the one-shot parser's subtraction
        for s in [b'\r\n\r\n', b'GET / HTTP/1.1\r\n\r\n', b'GET / HTTP/1.1\r\n\r\r\n\r\n', b'GET / HTTP/1.1\r\nA\r\n\r\n',
                  b'GET / HTTP/1.1\r\n\r\n\r\n', b'GET / HTTP/1.1\r\nContent-Length: 3\r\n\r\nab', b'GET / HTTP/1.1\r\n: \r\n\r\n',
                  b'PUT / HTTP/1.1\r\nContent-Length: 4294967295\r\n\r\n']:
            out.append(([5, s], {'kind': 'oneshot-edge'}))
        return out

    def split_builds(self, cases, exe, exe_small):
        return [(1024, exe, cases)]

    def oracle(self, cases, impl):
        v = []
        for cid, t, m in cases:
            lines = impl.get(cid, [])
            bad = None
            if not lines:
                bad = 'no output (the harness process died or hung)'
            for ln in lines:
                if 'RUST-PANIC' in ln:
                    bad = 'a panic was caught: ' + ln[:200]
                    break
                if ln.startswith('hang ') or ' HANG ' in ln:
                    bad = 'the call did not return: ' + ln[:200]
                    break
                if ' CALLS=' in ln:
                    bad = 'more than one write per try_write: ' + ln[:200]
                    break
                f = parse_rd(ln) if ln.startswith('conn ') else {}
                if f.get('sys', 0) > 1:
                    bad = 'more than one receive per try_read: ' + ln[:200]
                    break
            if bad:
                v.append({'case': t, 'oracle': 'catch_unwind / system-call count on the implementation',
                          'expected': 'a value or an error; at most one system call per call', 'observed': bad,
                          'signature': 'C03:' + bad.split(':')[0][:30]})
        return v

    def nontrivial(self, tree, meta, impl_lines):
        cont = False
        seen = False
        for ln in impl_lines:
            if seen and ('rd=' in ln or 'wr=' in ln):
                cont = True
            if 'Err(' in ln or 'ERR' in ln:
                seen = True
        raw = repr(tree)
        if cont or '\\x' in raw:
            return raw[:4000]
        return None
