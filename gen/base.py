# Base class of a property check and the shared trusted-base text.
import glob
import os

import common as C

WS_CODEPOINTS = [0x9, 0xA, 0xB, 0xC, 0xD, 0x20, 0x85, 0xA0, 0x1680] + list(range(0x2000, 0x200B)) + \
    [0x2028, 0x2029, 0x202F, 0x205F, 0x3000]
WS_UTF8 = [chr(c).encode('utf-8') for c in WS_CODEPOINTS]


def rust_trim(b):
    """str::trim on valid UTF-8 given as bytes (White_Space code points)."""
    changed = True
    while changed:
        changed = False
        for w in WS_UTF8:
            if b.startswith(w):
                b = b[len(w):]
                changed = True
            if b.endswith(w):
                b = b[:-len(w)]
                changed = True
    return b


def is_utf8(b):
    try:
        bytes(b).decode('utf-8')
        return True
    except UnicodeDecodeError:
        return False


def parse_tree(s):
    pos = [0]

    def skip():
        while pos[0] < len(s) and s[pos[0]] in ' \t':
            pos[0] += 1

    def item():
        skip()
        c = s[pos[0]]
        if c == '(':
            pos[0] += 1
            out = []
            while True:
                skip()
                if s[pos[0]] == ')':
                    pos[0] += 1
                    return out
                out.append(item())
        if c == 'x':
            pos[0] += 1
            st = pos[0]
            while pos[0] < len(s) and s[pos[0]] not in ' ()':
                pos[0] += 1
            return bytes.fromhex(s[st:pos[0]])
        st = pos[0]
        while pos[0] < len(s) and s[pos[0]].isdigit():
            pos[0] += 1
        return int(s[st:pos[0]])

    return item()


TRUSTED_COMMON = [
    'Coq 8.16.1 kernel (coqc; coqchk in the thorough tier); vm_compute is used in finite sweeps and '
    'non-vacuity examples; no native_compute; no -type-in-type / -impredicative-set; guard, positivity and '
    'universe checks on',
    'axioms: none (every theorem in props/ prints "Closed under the global context"; enforced on every run)',
    'the hand-written Gallina model (coq/model, coq/lib): tied to /repo only by the regenerated literal '
    'layer and the differential run on generated cases',
    'gen/srclit.py (regex extractor of literal tables from /repo/src)',
    'extraction: Require Extraction ExtrOcamlBasic only (bool, option, unit, list, prod, sumbool, sumor -> OCaml '
    'types; andb/orb inlined); N, positive, nat, Z stay extracted inductives; no other Extract directive; a sample '
    'of every run is re-evaluated with vm_compute inside Coq',
    'ocaml/driver.ml, harness/src (Rust), gen/*.py: case parsing, rendering, comparison, oracles',
    'modelled, not verified: Rust std (from_utf8, trim, make_ascii_lowercase, splitn, split, contains, '
    'u32::from_str, i32::to_string, Vec, VecDeque, HashMap, write_all), vmm-sys-util recv_with_fds/epoll, Drop of '
    'File/UnixStream, Utf8Error details and from_utf8_lossy output, allocation failure',
]


class Prop:
    pid = ''
    tie_groups = []
    needs_small = False
    observables = 'all observation lines'
    rule = ''

    def corpus(self):
        out = []
        for p in sorted(glob.glob('%s/corpus/%s/*.case' % (C.ROOT, self.pid))):
            for ln in open(p):
                ln = ln.strip()
                if ln.startswith('('):
                    t = parse_tree(ln)
                    out.append(([t[0]] + t[2:], {'kind': 'corpus', 'file': os.path.basename(p)}))
        return out

    def cases(self, rng, tier):
        return []

    def split_builds(self, cases, exe, exe_small):
        big = [c for c in cases if not c[2].get('small')]
        small = [c for c in cases if c[2].get('small')]
        return [(1024, exe, big), (C.SMALL_BUF, exe_small, small)]

    def project(self, line):
        return line

    def oracle(self, cases, impl):
        return []

    def neighbours(self, tree, meta, rng):
        return []

    def nontrivial(self, tree, meta, impl_lines):
        return C.tree(tree[2:])

    def trusted_base(self):
        return list(TRUSTED_COMMON)

    def assumptions(self):
        return ['model = implementation is checked only on the generated cases, the corpus and the literal tables']

    def extra_coverage(self, cases, impl):
        return {}
