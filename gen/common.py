# Shared machinery of ./check: building, running model and implementation, comparing,
# evidence, violation reports.
import fcntl
import hashlib
import json
import os
import random
import re
import subprocess
import sys
import time

ROOT = '/verif'
WORK = ROOT + '/.work'
COQ = ROOT + '/coq'
REPO = '/repo'
NCPU = 16

HOOK_FLAGS = '--cfg micro_http_verif'
SMALL_FLAGS = '--cfg micro_http_verif --cfg micro_http_verif_small'
SMALL_BUF = 32


def log(msg):
    sys.stderr.write(msg + '\n')
    sys.stderr.flush()


def sh(cmd, timeout=900, cwd=None, env=None, stdin=None):
    e = dict(os.environ)
    e['CARGO_NET_OFFLINE'] = 'true'
    if env:
        e.update(env)
    try:
        p = subprocess.run(cmd, shell=isinstance(cmd, str), cwd=cwd, env=e, input=stdin,
                           stdout=subprocess.PIPE, stderr=subprocess.STDOUT, timeout=timeout)
        return p.returncode, p.stdout.decode('utf-8', 'replace')
    except subprocess.TimeoutExpired as ex:
        out = ex.stdout.decode('utf-8', 'replace') if ex.stdout else ''
        return 124, out + '\n[timeout after %ds]' % timeout


class Lock:
    def __init__(self, name):
        os.makedirs(WORK, exist_ok=True)
        self.path = os.path.join(WORK, name)

    def __enter__(self):
        self.f = open(self.path, 'w')
        fcntl.flock(self.f, fcntl.LOCK_EX)
        return self

    def __exit__(self, *a):
        fcntl.flock(self.f, fcntl.LOCK_UN)
        self.f.close()


class BrokenBuild(Exception):
    def __init__(self, what, output):
        Exception.__init__(self, what)
        self.what = what
        self.output = output


# ---------------------------------------------------------------- building

def build_coq():
    """Full .vo build of the development (no-op when nothing changed)."""
    if not os.path.exists(COQ + '/Makefile') or \
            os.path.getmtime(COQ + '/Makefile') < os.path.getmtime(COQ + '/_CoqProject'):
        rc, out = sh('coq_makefile -f _CoqProject -o Makefile', cwd=COQ, timeout=120)
        if rc != 0:
            raise BrokenBuild('coq_makefile', out)
    rc, out = sh('make -j%d' % NCPU, cwd=COQ, timeout=3000)
    if rc != 0:
        raise BrokenBuild('coq make', out[-4000:])
    return out


def build_driver():
    d = WORK + '/ocaml'
    os.makedirs(d, exist_ok=True)
    srcs = [COQ + '/model.ml', COQ + '/model.mli', ROOT + '/ocaml/driver.ml']
    exe = d + '/driver'
    if os.path.exists(exe) and all(os.path.getmtime(exe) >= os.path.getmtime(s) for s in srcs):
        return
    for s in srcs:
        sh(['cp', s, d])
    rc, out = sh('ocamlfind ocamlopt -w -a model.mli model.ml driver.ml -o driver.new && mv driver.new driver',
                 cwd=d, timeout=600)
    if rc != 0:
        raise BrokenBuild('ocaml driver', out[-4000:])


def build_harness(small=False):
    """Rebuilds the implementation from /repo's current working tree (cargo decides what is stale)."""
    tgt = WORK + ('/target-small' if small else '/target')
    rc, out = sh('cargo build --offline --release', cwd=ROOT + '/harness', timeout=1500,
                 env={'CARGO_TARGET_DIR': tgt, 'RUSTFLAGS': SMALL_FLAGS if small else HOOK_FLAGS})
    if rc != 0:
        raise BrokenBuild('cargo build of the harness against /repo', out[-4000:])
    return tgt + '/release/mhh'


def ensure_built(small=False):
    with Lock('build.lock'):
        t = time.time()
        build_coq()
        build_driver()
        exe = build_harness(False)
        exe_small = build_harness(True) if small else None
        log('[build] %.1fs' % (time.time() - t))
    return exe, exe_small


# ---------------------------------------------------------------- hygiene + proofs

BAD_WORDS = re.compile(r'\b(Admitted|admit|Axiom|Axioms|Parameter|Parameters|Conjecture|Hypothesis|'
                       r'Unset\s+Guard|bypass_check|Admit\s+Obligations|native_compute|'
                       r'Unset\s+Positivity|Unset\s+Universe)\b')


def strip_comments(src):
    out = []
    depth = 0
    i = 0
    while i < len(src):
        if src.startswith('(*', i):
            depth += 1
            i += 2
        elif src.startswith('*)', i) and depth > 0:
            depth -= 1
            i += 2
        else:
            if depth == 0:
                out.append(src[i])
            i += 1
    return ''.join(out)


def hygiene():
    """No Admitted/admit/Axiom/Parameter/... anywhere in the development.  `Hypothesis` and
    `Variable` are allowed only inside a Section (checked by Print Assumptions being closed)."""
    bad = []
    for dp, dn, fn in os.walk(COQ):
        for f in fn:
            if f.endswith('.v'):
                p = os.path.join(dp, f)
                src = strip_comments(open(p).read())
                for m in BAD_WORDS.finditer(src):
                    w = m.group(1)
                    if w == 'Hypothesis':
                        continue
                    bad.append('%s: %s' % (p, w))
    return bad


def check_props(pid):
    """Re-checks props/<pid>.v: every theorem there, its pinned statement and its assumptions."""
    f = 'props/%s.v' % pid
    if os.environ.get('VERIF_DEV') and not os.path.exists(COQ + '/' + f):
        return {'file': f, 'theorems': [], 'print_assumptions': 0, 'rc': 0, 'closed': 0, 'axioms': [], 'ok': True}
    src = strip_comments(open(COQ + '/' + f).read())
    n_print = len(re.findall(r'Print\s+Assumptions', src))
    thms = re.findall(r'^\s*(?:Theorem|Lemma|Corollary|Example)\s+(\w+)', src, re.M)
    rc, out = sh('coqc -q -Q . MH -w -notation-overridden,-deprecated-hint-without-locality %s' % f,
                 cwd=COQ, timeout=1200)
    res = {'file': f, 'theorems': thms, 'print_assumptions': n_print, 'rc': rc, 'closed': 0,
           'axioms': [], 'output_tail': out[-1500:]}
    if rc != 0:
        res['ok'] = False
        return res
    res['closed'] = out.count('Closed under the global context')
    # anything listed after "Axioms:" is an axiom some theorem depends on
    for blk in re.findall(r'Axioms:\n((?:.+\n?)+?)(?:\n|$)', out):
        for ln in blk.splitlines():
            m = re.match(r'^(\S+)\s*:', ln)
            if m:
                res['axioms'].append(m.group(1))
    res['ok'] = (res['closed'] == n_print and not res['axioms'] and n_print > 0)
    return res


# ---------------------------------------------------------------- literal tie

def check_tie(groups):
    """Regenerates the literal layer from /repo/src and re-proves src_X = Model.X for the
    groups a property depends on.  Returns (ok, details)."""
    import srclit
    os.makedirs(COQ + '/tie', exist_ok=True)
    with Lock('tie.lock'):
        try:
            text, missing = srclit.generate(REPO + '/src')
        except Exception as ex:  # the extractor could not find a table: a broken tie, not a crash
            return False, {'error': 'literal extractor failed: %r' % ex}
        p = COQ + '/tie/SrcLiterals.v'
        old = open(p).read() if os.path.exists(p) else None
        if old != text:
            open(p, 'w').write(text)
        rc, out = sh('coqc -q -Q . MH tie/SrcLiterals.v', cwd=COQ, timeout=300)
        if rc != 0:
            return False, {'error': 'SrcLiterals.v does not compile', 'output': out[-2000:]}
        det = {'missing': missing, 'groups': {}}
        ok = True
        for g in groups:
            rc, out = sh('coqc -q -Q . MH tie/Tie%s.v' % g, cwd=COQ, timeout=300)
            src = strip_comments(open(COQ + '/tie/Tie%s.v' % g).read())
            n = len(re.findall(r'^\s*(?:Lemma|Theorem)\s', src, re.M))
            det['groups'][g] = {'rc': rc, 'lemmas': n, 'output': out[-1500:] if rc != 0 else ''}
            if rc != 0:
                ok = False
        return ok, det


# ---------------------------------------------------------------- case syntax

def hx(b):
    return 'x' + bytes(b).hex()


def tree(t):
    """python value -> case syntax: int, bytes, list/tuple"""
    if isinstance(t, bool):
        return '1' if t else '0'
    if isinstance(t, int):
        return str(t)
    if isinstance(t, (bytes, bytearray)):
        return hx(t)
    return '(' + ' '.join(tree(x) for x in t) + ')'


def coq_term(t):
    if isinstance(t, bool):
        return 'AN %d' % int(t)
    if isinstance(t, int):
        return 'AN %d' % t
    if isinstance(t, (bytes, bytearray)):
        return 'AB [' + ';'.join(str(x) for x in t) + ']'
    return 'AL [' + '; '.join(coq_term(x) for x in t) + ']'


# ---------------------------------------------------------------- running

def _run_sharded(cmd_of_shard, lines, nshards, timeout, env=None):
    nshards = max(1, min(nshards, len(lines)))
    shards = [lines[i::nshards] for i in range(nshards)]
    procs = []
    e = dict(os.environ)
    if env:
        e.update(env)
    for i, sh_lines in enumerate(shards):
        p = subprocess.Popen(cmd_of_shard(i), stdin=subprocess.PIPE, stdout=subprocess.PIPE,
                             stderr=subprocess.PIPE, env=e, shell=isinstance(cmd_of_shard(i), str))
        procs.append((p, sh_lines))
    import threading
    outs = [None] * len(procs)

    def feed(i, p, sl):
        try:
            o, er = p.communicate(('\n'.join(sl) + '\n').encode(), timeout=timeout)
            outs[i] = (p.returncode, o.decode('utf-8', 'replace'), er.decode('utf-8', 'replace'))
        except subprocess.TimeoutExpired:
            p.kill()
            outs[i] = (124, '', 'timeout')

    ths = [threading.Thread(target=feed, args=(i, p, sl)) for i, (p, sl) in enumerate(procs)]
    for t in ths:
        t.start()
    for t in ths:
        t.join()
    return outs


def run_impl(exe, case_lines, nshards=NCPU, timeout=1200):
    """Runs the harness; a case on which the implementation does not return (the harness watchdog prints
    'HANG <id>' and exits with status 3) is recorded as the line 'hang <id> HANG' and the cases after it are run in a
    fresh process."""
    by_case, problems = {}, []
    pending = list(case_lines)
    rounds = 0
    while pending and rounds < 40:
        rounds += 1
        outs = _run_sharded(lambda i: [exe], pending, nshards, timeout)
        n = max(1, min(nshards, len(pending)))
        shards = [pending[i::n] for i in range(n)]
        again = []
        clean = []
        for (rc, o, er), sl in zip(outs, shards):
            mh = re.search(r'HANG (\d+)', er or '')
            if rc == 3 and mh:
                hid = mh.group(1)
                ids = [case_id(x) for x in sl]
                k = ids.index(hid) if hid in ids else len(ids) - 1
                o = '\n'.join(ln for ln in o.splitlines() if ln.split(' ', 2)[1:2] != [hid])
                o += '\nhang %s HANG the implementation did not return within the watchdog time\n' % hid
                again += sl[k + 1:]
                clean.append((0, o, ''))
            else:
                clean.append((rc, o, er))
        bc, pr = collect(clean, 'implementation harness')
        for k2, v in bc.items():
            by_case.setdefault(k2, []).extend(v)
        problems += pr
        pending = again
    return by_case, problems


def run_model(case_lines, buf=1024, nshards=NCPU, timeout=1200):
    exe = WORK + '/ocaml/driver'
    outs = _run_sharded(lambda i: 'ulimit -s unlimited 2>/dev/null; exec %s %d' % (exe, buf),
                        case_lines, nshards, timeout)
    return collect(outs, 'model driver')


def collect(outs, who):
    by_case = {}
    problems = []
    for rc, o, er in outs:
        if rc != 0:
            problems.append('%s exited with %s: %s' % (who, rc, er[-500:]))
        for ln in o.splitlines():
            parts = ln.split(' ', 2)
            if len(parts) < 2:
                continue
            by_case.setdefault(parts[1], []).append(ln)
    return by_case, problems


def case_id(case_line):
    # "(dom id ..." -> id
    return case_line[1:].split(' ', 2)[1]


def compare(cases, impl, model, project=None):
    """cases: list of (id, line, meta). Returns list of (id, first differing impl line, model line)."""
    diffs = []
    for cid, line, meta in cases:
        if meta.get('oracle_only'):
            continue            # outside what the model expresses (stated in DESIGN): decided by the oracle alone
        a = impl.get(cid, [])
        b = model.get(cid, [])
        if project:
            a = [project(x) for x in a]
            b = [project(x) for x in b]
        if a != b:
            k = 0
            while k < len(a) and k < len(b) and a[k] == b[k]:
                k += 1
            diffs.append((cid, a[k] if k < len(a) else '<missing>', b[k] if k < len(b) else '<missing>'))
    return diffs


def _vm_one(args):
    name, sample, model, buf = args
    d = WORK + '/vm'
    with open('%s/%s.v' % (d, name), 'w') as f:
        f.write('From MH Require Import run.Run.\nOpen Scope N_scope.\n')
        for k, (cid, t) in enumerate(sample):
            exp = model.get(cid, [])
            f.write('Definition a%d : arg := %s.\n' % (k, coq_term(t)))
            f.write('Definition e%d : list (list N) := [%s].\n' % (
                k, '; '.join('[' + ';'.join(str(x) for x in ln.encode('latin-1')) + ']' for ln in exp)))
            f.write('Eval vm_compute in (lines_eqb (run_case %d a%d) e%d).\n' % (buf, k, k))
    rc, out = sh('coqc -q -noglob -Q %s MH %s/%s.v' % (COQ, d, name), timeout=900)
    n_true = len(re.findall(r'=\s*true', out))
    for ext in ('.v', '.vo', '.vok', '.vos', '.glob'):
        try:
            os.remove('%s/%s%s' % (d, name, ext))
        except OSError:
            pass
    try:
        os.remove('%s/.%s.aux' % (d, name))
    except OSError:
        pass
    return rc, n_true, out[-1000:]


def vm_crosscheck(sample, model, buf=1024, nproc=8):
    """Re-evaluates a sample of cases inside Coq (vm_compute) and compares with what the
    extracted model printed: extraction is cross-checked rather than only trusted."""
    if not sample:
        return True, 0, ''
    os.makedirs(WORK + '/vm', exist_ok=True)
    nproc = max(1, min(nproc, len(sample)))
    parts = [sample[i::nproc] for i in range(nproc)]
    from concurrent.futures import ThreadPoolExecutor
    with ThreadPoolExecutor(max_workers=nproc) as ex:
        res = list(ex.map(_vm_one, [('cases_%d_%d' % (os.getpid(), i), p, model, buf) for i, p in enumerate(parts)]))
    n_true = sum(r[1] for r in res)
    ok = all(r[0] == 0 for r in res) and n_true == len(sample)
    return ok, n_true, '\n'.join(r[2] for r in res if r[0] != 0 or True)[-1500:] if not ok else ''


# ---------------------------------------------------------------- known findings

def known_findings():
    out = []
    p = ROOT + '/known_findings.txt'
    if os.path.exists(p):
        for ln in open(p):
            ln = ln.strip()
            if ln.startswith('finding:'):
                m = re.match(r'finding:\s+property=(\S+)\s+signature=(\S+)\s*(.*)', ln)
                if m:
                    out.append({'property': m.group(1), 'signature': m.group(2), 'text': m.group(3)})
    return out


# ---------------------------------------------------------------- reporting

def write_replay(pid, obj):
    d = WORK + '/replay'
    os.makedirs(d, exist_ok=True)
    h = hashlib.sha1(json.dumps(obj, sort_keys=True, default=str).encode()).hexdigest()[:12]
    p = '%s/%s-%s.json' % (d, pid, h)
    obj = dict(obj)
    obj['property'] = pid
    obj['rerun'] = './check %s --replay %s' % (pid, p)
    with open(p, 'w') as f:
        json.dump(obj, f, indent=1, default=str)
    return p


def write_evidence(pid, tier, seed, coverage, assumptions, wall, violations):
    os.makedirs(ROOT + '/evidence', exist_ok=True)
    ev = {'property_id': pid, 'tier': tier, 'seed': seed, 'level': 'proof', 'coverage': coverage,
          'assumptions': assumptions, 'wall_s': round(wall, 2), 'violations': violations}
    with open('%s/evidence/%s.json' % (ROOT, pid), 'w') as f:
        json.dump(ev, f, indent=1, default=str)


class Rng(random.Random):
    pass
