# An independent statement, in Python, of the wire formats the properties describe: response
# serialisation (C05), an HTTP response reader that knows only framing, and a recogniser of the
# request grammar (C02).  Written from the property texts, not from the model.
STATUS = [b'100', b'200', b'204', b'400', b'401', b'404', b'405', b'413', b'500', b'501', b'503']
VERS = [b'HTTP/1.0', b'HTTP/1.1']
METH = [b'GET', b'PUT', b'PATCH']
MEDIA = [b'text/plain', b'application/json']


def as_i32(n):
    n &= 0xFFFFFFFF
    return n - (1 << 32) if n >= (1 << 31) else n


def build(t):
    """t = [version, status, ops] -> dict describing the response"""
    ver, st, ops = t[0], t[1], t[2]
    r = {'version': VERS[min(ver, 1)], 'status': STATUS[st] if st < 11 else STATUS[10],
         'length': None if (st < 11 and STATUS[st] in (b'100', b'204')) else 0,
         'ctype': MEDIA[1], 'deprecation': False, 'encoding': False, 'server': b'Firecracker API',
         'allow': [], 'body': None}
    for op in ops:
        k = op[0]
        if k == 0:
            r['body'] = bytes(op[1])
            r['length'] = as_i32(len(op[1]))
        elif k == 1:
            r['ctype'] = MEDIA[min(op[1], 1)]
        elif k == 2:
            r['deprecation'] = True
        elif k == 3:
            r['encoding'] = True
        elif k == 4:
            r['server'] = bytes(op[1])
        elif k == 5:
            r['allow'] = [METH[min(m, 2)] for m in op[1:]]
        elif k == 6:
            r['allow'] = r['allow'] + [METH[min(op[1], 2)]]
        elif k == 7:
            r['length'] = None if len(op) == 1 else as_i32(op[1])
        elif k == 8:
            r['length'] = as_i32(-op[1])
    return r


def header_lines(r):
    ls = [b'Server: ' + r['server'], b'Connection: keep-alive']
    if r['allow']:
        ls.append(b'Allow: ' + b', '.join(r['allow']))
    if r['deprecation']:
        ls.append(b'Deprecation: true')
    if r['length'] is not None:
        ls.append(b'Content-Type: ' + r['ctype'])
        ls.append(b'Content-Length: ' + str(r['length']).encode())
        if r['encoding']:
            ls.append(b'Accept-Encoding: identity')
    return ls


def serialize(r):
    out = r['version'] + b' ' + r['status'] + b' \r\n'
    for l in header_lines(r):
        out += l + b'\r\n'
    out += b'\r\n'
    if r['body'] is not None:
        out += r['body']
    return out


def read_response(s):
    """independent reader: status line, header lines up to the blank line, Content-Length bytes.
    Returns ((status_line, [header lines], body), rest) or None."""
    i = s.find(b'\r\n')
    if i < 0:
        return None
    status_line = s[:i]
    pos = i + 2
    hs = []
    clen = 0
    while True:
        j = s.find(b'\r\n', pos)
        if j < 0:
            return None
        line = s[pos:j]
        pos = j + 2
        if line == b'':
            break
        hs.append(line)
        if line.lower().startswith(b'content-length:'):
            try:
                clen = int(line.split(b':', 1)[1].strip())
            except ValueError:
                return None
    if clen < 0 or pos + clen > len(s):
        return None
    return (status_line, hs, s[pos:pos + clen]), s[pos + clen:]


def read_all(s):
    out = []
    while s:
        r = read_response(s)
        if r is None:
            return None
        out.append(r[0])
        s = r[1]
    return out


def view(r):
    return (r['version'] + b' ' + r['status'] + b' ', header_lines(r), r['body'] if r['body'] is not None else b'')


# ---------------------------------------------------------------- request grammar recogniser (C02)
def _hx(b):
    return bytes(b).hex() or '-'


def _is_utf8(b):
    try:
        bytes(b).decode('utf-8')
        return True
    except UnicodeDecodeError:
        return False


def recognise_stream(s, limit, buf=1024):
    """what a connection must deliver for the byte stream s read in any way: a list of rendered
    requests followed, if the stream cannot be continued, by the rendered first error"""
    import p_headers
    out = []
    pos = 0

    def take_line(pos):
        w = s[pos:pos + buf]
        i = w.find(b'\r\n')
        if i >= 0:
            return ('line', s[pos:pos + i], pos + i + 2)
        if len(s) - pos >= buf:
            return ('toolong', w, pos)
        return ('more', None, pos)
    while True:
        kind, line, npos = take_line(pos)
        if kind == 'more':
            return out
        if kind == 'toolong':
            return out + ['Err(ParseError(InvalidRequest))']
        pos = npos
        parts = line.split(b' ', 2)
        if len(parts) < 3:
            return out + ['Err(ParseError(InvalidRequest))']
        m, u, v = parts
        if m not in (b'GET', b'PUT', b'PATCH'):
            return out + ['Err(ParseError(InvalidHttpMethod))']
        if u == b'':
            return out + ['Err(ParseError(InvalidUri(empty)))']
        if not _is_utf8(u):
            return out + ['Err(ParseError(InvalidUri(utf8)))']
        if v not in (b'HTTP/1.0', b'HTTP/1.1'):
            return out + ['Err(ParseError(InvalidHttpVersion))']
        h = p_headers.Hdrs()
        while True:
            kind, line, npos = take_line(pos)
            if kind == 'more':
                return out
            if kind == 'toolong':
                raw = line
                if _is_utf8(raw) and b'\xef\xbf\xbd' not in raw:
                    return out + ['Err(ParseError(HeaderError(SizeLimitExceeded(%s))))' % _hx(raw)]
                return out + ['Err(ParseError(HeaderError(SizeLimitExceeded(lossy))))']
            pos = npos
            if line == b'':
                break
            e = p_headers.parse_line(h, line)
            if e is not None and 'UnsupportedValue' not in e:
                return out + ['Err(ParseError(%s))' % e]
        body = 'none'
        if h.cl != 0:
            if h.cl > limit:
                return out + ['Err(ParseError(SizeLimitExceeded(%d,%d)))' % (limit, h.cl)]
            if len(s) - pos < h.cl:
                return out
            body = 'some:' + _hx(s[pos:pos + h.cl])
            pos += h.cl
        out.append('REQ m=%s u=%s v=%s %s body=%s' % (
            {b'GET': 'Get', b'PUT': 'Put', b'PATCH': 'Patch'}[m], _hx(u),
            'Http10' if v == b'HTTP/1.0' else 'Http11', h.render(), body))
