# C05 (response serialisation) and C06 (the write half of the connection).
import itertools

import pyhttp
from base import Prop

BODIES = [b'', b'x', b'hello', b'\r\n\r\n', b'\r\n\r\nHTTP/1.1 200 \r\nContent-Length: 5\r\n\r\n', b'HTTP/1.1 404 \r\n',
          bytes(range(256)), b'Content-Length: 99\r\n', b'\x00' * 17, b'\r', b'\n', b'a\r\nb']
SERVERS = [b'Firecracker API', b'', b's', 'sérv'.encode(), b'a: b', b'x' * 40, b' lead', b'Content-Length: 3']


def rand_body(rng, maxlen):
    r = rng.random()
    if r < 0.35:
        return rng.choice(BODIES)
    if r < 0.8:
        n = rng.randint(0, min(maxlen, 200))
    elif r < 0.95:
        n = rng.randint(min(maxlen, 200), min(maxlen, 5000))
    else:
        n = rng.randint(0, maxlen)
    alpha = rng.choice([b'ab', b'\r\n', bytes(range(256)), b'\r\nHTP/1.20 :'])
    return bytes(rng.choice(alpha) for _ in range(n))


def rand_op(rng, kind, maxbody):
    if kind == 0:
        return [0, rand_body(rng, maxbody)]
    if kind == 1:
        return [1, rng.randint(0, 1)]
    if kind == 2:
        return [2]
    if kind == 3:
        return [3]
    if kind == 4:
        return [4, rng.choice(SERVERS)]
    if kind == 5:
        return [5] + [rng.randint(0, 2) for _ in range(rng.randint(0, 3))]
    return [6, rng.randint(0, 2)]


def rand_resp(rng, maxbody=65536, maxops=5):
    n = rng.randint(0, maxops)
    return [rng.randint(0, 1), rng.randint(0, 10), [rand_op(rng, rng.randint(0, 6), maxbody) for _ in range(n)]]


class C05(Prop):
    pid = 'C05'
    tie_groups = ['Response', 'Tokens']
    observables = 'the bytes Response::write_all hands to the sink (through sinks accepting 1..n bytes or EINTR per write)'
    rule = ('2 versions x 11 statuses x every sequence of <= 2 builder-call kinds, random sequences of <= 5 calls, bodies '
            '0..64 KiB incl. CRLFCRLF and status-line look-alikes, sinks with random short writes; plus a separate stream '
            'with explicit set_content_length. Non-trivial = distinct (status, call-kind sequence, body class) with at '
            'least one builder call')

    def cases(self, rng, tier):
        out = []
        for v in (0, 1):
            for st in range(11):
                for n in (0, 1, 2):
                    for kinds in itertools.product(range(7), repeat=n):
                        ops = [rand_op(rng, k, 300) for k in kinds]
                        out.append(([7, v, st, ops, []], {'kind': 'all-kind-sequences<=2'}))
        for _ in range(1500 if tier == 'quick' else 60000):
            v, st, ops = rand_resp(rng)
            sink = []
            if rng.random() < 0.5:
                sink = [rng.choice([0, 1, 1, 2, 3, 7, 50, 1000]) for _ in range(rng.randint(1, 5))]
                if all(k == 0 for k in sink):
                    sink.append(1)
            out.append(([7, v, st, ops, sink], {'kind': 'random<=5' + ('+sink' if sink else '')}))
        for _ in range(300 if tier == 'quick' else 5000):
            v, st, ops = rand_resp(rng, 300, 3)
            pos = rng.randint(0, len(ops))
            ops.insert(pos, rng.choice([[7], [7, rng.randint(0, 100)], [7, 2 ** 31 - 1], [8, rng.randint(1, 50)]]))
            out.append(([7, v, st, ops, []], {'kind': 'explicit-length'}))
        # bodies at the 64 KiB end of the domain
        for n in (65535, 65536):
            out.append(([7, 1, 1, [[0, bytes([rng.randint(0, 255) for _ in range(n)])]], [4096]], {'kind': 'body-64k'}))
        return out

    def project(self, line):
        return line

    def oracle(self, cases, impl):
        v = []
        good = []
        for cid, t, m in cases:
            lines = impl.get(cid, [])
            r = pyhttp.build(t[2:5])
            exp = 'resp %s %s' % (cid, pyhttp.serialize(r).hex() or '-')
            if lines != [exp]:
                v.append({'case': t, 'oracle': 'independent serialiser written from the property text',
                          'expected': exp[:400], 'observed': (lines[0] if lines else '<missing>')[:400],
                          'signature': 'C05:bytes'})
                continue
            if m['kind'] != 'explicit-length':
                good.append((t, r, bytes.fromhex(lines[0].split(' ')[2].replace('-', ''))))
        # any concatenation on a keep-alive stream is recovered by a reader that knows only framing
        for i in range(0, len(good), 5):
            grp = good[i:i + 5]
            got = pyhttp.read_all(b''.join(g[2] for g in grp))
            want = [pyhttp.view(g[1]) for g in grp]
            if got != want:
                v.append({'case': grp[0][0], 'oracle': 'independent reader on a concatenation of %d responses' % len(grp),
                          'expected': repr(want)[:400], 'observed': repr(got)[:400], 'signature': 'C05:reader'})
        return v

    def nontrivial(self, tree, meta, impl_lines):
        ops = tree[4]
        if not ops:
            return None
        bc = 'nobody'
        for o in ops:
            if o[0] == 0:
                b = bytes(o[1])
                bc = 'empty' if not b else ('crlf' if b'\r\n' in b else ('big' if len(b) > 1024 else 'plain'))
        return (tree[3], tuple(o[0] for o in ops), bc)


class C06(Prop):
    pid = 'C06'
    tie_groups = ['Response']
    observables = 'per try_write: result, the slice offered to the single write call, pending_write afterwards'
    rule = ('0..6 enqueued responses (bodies 0..8 KiB) x random interleavings of enqueue / try_write / clear x per-write '
            'behaviour from {accept k (every k for short buffers, random k), EINTR, EAGAIN, EPIPE, accept 0}; '
            'non-trivial = distinct history with at least one short or failed write')

    def cases(self, rng, tier):
        out = []
        n = 2500 if tier == 'quick' else 80000
        for _ in range(n):
            ops = []
            nresp = rng.randint(0, 6)
            left = nresp
            steps = rng.randint(1, 40)
            mode = rng.choice(['tiny', 'mixed', 'mixed', 'whole', 'faulty'])
            for _ in range(steps):
                r = rng.random()
                if left and r < 0.3:
                    resp = rand_resp(rng, 8192 if rng.random() < 0.1 else 120, 3)
                    if rng.random() < 0.15:
                        # an explicit Content-Length (none, or one that differs from the body): the serialisation the
                        # connection must send is still exactly what Response::write_all produces
                        resp[2].insert(rng.randint(0, len(resp[2])), rng.choice([[7], [7, rng.randint(0, 100)], [7], [8, rng.randint(1, 50)]]))
                    ops.append([7, resp])
                    left -= 1
                elif r < 0.33:
                    ops.append([9])
                else:
                    q = rng.random()
                    if mode == 'tiny':
                        ops.append([3, rng.randint(1, 3)])
                    elif mode == 'whole':
                        ops.append([3, 100000])
                    elif mode == 'faulty' and q < 0.25:
                        ops.append(rng.choice([[3, 0], [5, 32], [5, 11], [5, 104], [4]]))
                    elif q < 0.1:
                        ops.append([4])
                    elif q < 0.14:
                        ops.append(rng.choice([[3, 0], [5, 32], [5, 11]]))
                    else:
                        ops.append([3, rng.choice([1, 2, 5, 17, 60, 100, 150, 200, 1000, 9000])])
            out.append(([6, 51200, b'', ops], {'kind': 'history-' + mode}))
        # every k for a short buffer
        r0 = [1, 2, []]          # HTTP/1.1 204: the shortest serialisation
        total = len(pyhttp.serialize(pyhttp.build(r0)))
        for k in range(1, total + 1):
            out.append(([6, 51200, b'', [[7, r0], [3, k], [3, total], [3, 1], [7, r0], [3, k], [4], [3, total]]],
                        {'kind': 'every-k'}))
        return out

    def oracle(self, cases, impl):
        v = []
        for cid, t, m in cases:
            lines = impl.get(cid, [])
            ops = t[4]
            com = b''
            acc = b''
            bad = None
            if len(lines) != len(ops):
                bad = ('one line per call', '%d lines' % len(lines))
            else:
                for i, (op, ln) in enumerate(zip(ops, lines)):
                    if 'RUST-PANIC' in ln:
                        bad = ('every call returns a value or an error (step %d)' % i, ln[:200])
                        break
                    f = dict(x.split('=', 1) for x in ln.split(' ')[3:] if '=' in x)
                    if op[0] == 7:
                        com += pyhttp.serialize(pyhttp.build(op[1]))
                        want_p = '1'
                    elif op[0] == 9:
                        com = acc = b''
                        want_p = '0'
                    elif op[0] in (3, 4, 5):
                        unsent = com[len(acc):]
                        if not unsent:
                            if f.get('wr') != 'Err(InvalidWrite)' or f.get('off') != 'none':
                                bad = ('InvalidWrite without touching the stream (step %d)' % i, ln[:200])
                                break
                            want_p = '0'
                        else:
                            try:
                                off = bytes.fromhex(f.get('off', 'none').replace('none', ''))
                            except ValueError:
                                off = b''
                            if not off or not unsent.startswith(off):
                                bad = ('the slice offered is the next unsent bytes (step %d)' % i, ln[:200])
                                break
                            if 'CALLS' in ln:
                                bad = ('at most one write per try_write (step %d)' % i, ln[:200])
                                break
                            if op[0] == 4:
                                want_r, want_p = 'Ok', '1'
                            elif op[0] == 5 or op[1] == 0:
                                want_r, want_p = 'Err(ConnectionClosed)', '0'
                                com = acc = b''
                            else:
                                acc += off[:op[1]]
                                want_r = 'Ok'
                                want_p = '1' if len(acc) < len(com) else '0'
                            if f.get('wr') != want_r:
                                bad = ('result %s (step %d)' % (want_r, i), ln[:200])
                                break
                    else:
                        continue
                    if f.get('pend') != want_p:
                        bad = ('pending_write = %s exactly while bytes remain unsent (step %d)' % (want_p, i), ln[:200])
                        break
            if bad:
                v.append({'case': t, 'oracle': 'prefix/conservation check against independently serialised responses',
                          'expected': bad[0], 'observed': bad[1], 'signature': 'C06:' + bad[0].split(' (')[0]})
        return v

    def nontrivial(self, tree, meta, impl_lines):
        ops = tree[4]
        short = any(o[0] in (4, 5) or (o[0] == 3 and o[1] < 100) for o in ops) and any(o[0] == 7 for o in ops)
        return repr(ops) if short else None
