# C15: header rules.  Oracle: an independent statement of the rules in Python.
import re

from base import Prop, rust_trim, is_utf8

NAMES = [b'Content-Length', b'Content-Type', b'Expect', b'Transfer-Encoding', b'Server', b'Accept', b'Accept-Encoding']
MEDIA = {b'text/plain': 'PlainText', b'application/json': 'ApplicationJson'}
PADS = [b'', b'', b' ', b'\t', b'  ', b'\xc2\xa0', b'\xe2\x80\x83', b'\xe3\x80\x80', b'\x0b', b'\xc2\x85']
VALUES = {
    b'Content-Length': [b'0', b'5', b'007', b'+5', b'4294967295', b'4294967296', b'-1', b'', b'+', b'5 5', b'1e3', b'\xd9\xa5',
                        b'99999999999999999999', b'+0', b'-0', b'0x1'],
    b'Content-Type': [b'application/json', b'text/plain', b'text/html', b'', b'TEXT/PLAIN', b'text/plain; charset=utf-8',
                      b'text/plain\x00', b'\x01application/json', b'application/json\x1f', b'\x0btext/plain\x0c'],
    b'Expect': [b'100-continue', b'100-Continue', b'', b'200-ok', b'100-continue, x'],
    b'Transfer-Encoding': [b'chunked', b'identity', b'gzip', b'', b'Chunked', b'chunked, gzip'],
    b'Server': [b'x', b'', b'any thing'],
    b'Accept': [b'text/plain', b'application/json', b'*/*', b'', b'text/html', b'application/json\x00', b'\x1ftext/plain', b'\x0bapplication/json\x0c'],
    b'Accept-Encoding': [b'identity', b'gzip', b'gzip, deflate', b'identity;q=0', b'*;q=0', b'gzip, *;q=0', b'identity, *;q=0',
                         b'*;q=0, identity;q=1', b'', b' ', b'gzip,identity;q=0', b'identity;q=0.5', b'*;q=0,xidentityx', b',', b'a,,b',
                         # weights in every spelling: only the exact tokens identity;q=0 and *;q=0 are fatal
                         b'gzip;q=', b'identity;q=', b'*;q=', b'identity;q=0.0', b'*;q=0.0', b'gzip;q=0', b'identity;q=00', b'identity;q',
                         b';q=0', b';q=', b'q=0', b'gzip;q=;q=0', b'identity;q=0;q=1', b'deflate;q=0.5, gzip;q='],
}
OTHER_NAMES = [b'X-Custom', b'x-custom', b'Host', b'', b'Content-Lengthy', b'Content Length', b'Accept-', b'\xc3\xa9t\xc3\xa9', b'X:Y',
               # the characters next to A..Z and a..z (lower-casing touches only letters)
               b'X@Y[Z', b'x`y{z', b'@A[Z`a{z', b'CONTENT@LENGTH', b'Accept[']


def flip(rng, b):
    return bytes((c ^ 0x20) if (65 <= (c & ~0x20) <= 90 and rng.random() < 0.5) else c for c in b)


def gen_line(rng):
    r = rng.random()
    if r < 0.6:
        name = rng.choice(NAMES)
        v = rng.choice(VALUES[name])
        n = flip(rng, name) if rng.random() < 0.7 else name
        return rng.choice(PADS) + n + rng.choice(PADS) + b':' + rng.choice(PADS) + v + rng.choice(PADS)
    if r < 0.8:
        n = rng.choice(OTHER_NAMES)
        v = rng.choice([b'v', b'', b'a:b', b'::', b'multi word', b'\xc3\xa9'])
        if rng.random() < 0.3:
            # characters sharing bytes with White_Space characters (never trimmed), 3- and 4-byte characters
            import reqgen
            n = rng.choice(reqgen.NEAR_WS + [b'']) + n + rng.choice(reqgen.NEAR_WS + [b''])
            v = rng.choice(reqgen.NEAR_WS + [b'']) + v + rng.choice(reqgen.NEAR_WS + [b''])
        return rng.choice(PADS) + n + rng.choice(PADS) + b':' + rng.choice(PADS) + v + rng.choice(PADS)
    if r < 0.88:
        return rng.choice([b'NoColon', b'', b' ', b'Content-Length 5', b'\xe3\x80\x80'])
    if r < 0.95:
        return rng.choice([b'X: \xff', b'\xfe: b', b'Content-Length: \xc3\x28', b'\xed\xa0\x80:x', b'Accept-Encoding: \xff', b'\xc0\x80'])
    return bytes(rng.choice(b':aA \t\r\n\x00\xc2\xa0') for _ in range(rng.randint(0, 12)))


class Hdrs:
    def __init__(self):
        self.cl, self.ex, self.ch, self.acc, self.ce = 0, False, False, 'PlainText', {}

    def render(self):
        ce = sorted(((k.hex() or '-'), (v.hex() or '-')) for k, v in self.ce.items())
        return 'cl=%d ex=%d ch=%d acc=%s ce=[%s]' % (self.cl, self.ex, self.ch, self.acc, ','.join('%s:%s' % kv for kv in ce))


def hx(b):
    return b.hex() or '-'


def media(tv):
    if not tv:
        return None
    return MEDIA.get(rust_trim(tv))


def parse_line(h, line):
    """returns None on success, or the error rendering"""
    if not is_utf8(line):
        return 'HeaderError(InvalidUtf8String)'
    if b':' not in line:
        return 'HeaderError(InvalidFormat(%s))' % hx(line)
    k, v = line.split(b':', 1)
    name = rust_trim(k.lower())
    tv = rust_trim(v)
    unsup = 'HeaderError(UnsupportedValue(%s,%s))' % (hx(k), hx(v))
    if name == b'content-length':
        if re.fullmatch(rb'\+?[0-9]+', tv) and int(tv) < 2 ** 32:
            h.cl = int(tv)
            return None
        return 'HeaderError(InvalidValue(%s,%s))' % (hx(k), hx(v))
    if name == b'content-type':
        return None if media(tv) else unsup
    if name == b'accept':
        m = media(tv)
        if m:
            h.acc = m
            return None
        return unsup
    if name == b'transfer-encoding':
        if tv == b'chunked':
            h.ch = True
            return None
        return None if tv == b'identity' else unsup
    if name == b'expect':
        if tv == b'100-continue':
            h.ex = True
            return None
        return unsup
    if name == b'server':
        return None
    if name == b'accept-encoding':
        if not tv:
            return 'InvalidRequest'
        for p in tv.split(b','):
            t = rust_trim(p)
            if t == b'identity;q=0' or (t == b'*;q=0' and b'identity' not in tv):
                return 'HeaderError(InvalidValue(%s,%s))' % (hx(b'Accept-Encoding'), hx(p))
        return None
    h.ce[rust_trim(k)] = tv
    return None


class C15(Prop):
    pid = 'C15'
    tie_groups = ['Headers', 'Tokens']
    observables = 'Headers::parse_header_line line by line (result and resulting Headers), Headers::try_from on blocks, Encoding::try_from'
    rule = ('blocks of 0..6 lines: the 7 recognised names in sampled letter-case patterns, padded with SP/HTAB/VT/NBSP/EM SPACE/'
            'IDEOGRAPHIC SPACE/NEL, with supported, unsupported and malformed values; other names; duplicates; lines with 0, 1 '
            'or several colons; invalid UTF-8; every block is run line by line and as a block; non-trivial = distinct block '
            'with at least two lines')

    def cases(self, rng, tier):
        out = []
        n = 4000 if tier == 'quick' else 150000
        for _ in range(n):
            lines = [gen_line(rng) for _ in range(rng.randint(0, 6))]
            if lines and rng.random() < 0.3:
                lines.append(rng.choice(lines))     # duplicates
            out.append(([2, lines], {'kind': 'lines'}))
            block = b'\r\n'.join(lines)
            if rng.random() < 0.2:
                block += rng.choice([b'\r\n', b'\r\n\r\nX: after-the-empty-line', b'\r', b'\n'])
            out.append(([3, block], {'kind': 'block'}))
        for name in NAMES:
            for v in VALUES[name]:
                for p in PADS:
                    out.append(([2, [p + name + b':' + p + v + p, name.lower() + p + b':' + v, name.upper() + b':' + v]],
                                {'kind': 'table'}))
        for v in VALUES[b'Accept-Encoding'] + [b'\xff', b'identity;q=0 ', b' *;q=0']:
            out.append(([1, 4, v], {'kind': 'encoding'}))
        return out

    def oracle(self, cases, impl):
        v = []
        for cid, t, m in cases:
            lines = impl.get(cid, [])
            exp = []
            if t[0] == 2:
                h = Hdrs()
                for i, ln in enumerate(t[2]):
                    e = parse_line(h, bytes(ln))
                    exp.append('hdr %s %d %s' % (cid, i, 'ok' if e is None else 'ERR ' + e))
                exp.append('hdr %s end %s' % (cid, h.render()))
            elif t[0] == 3:
                b = bytes(t[2])
                if not is_utf8(b):
                    exp.append('blk %s ERR InvalidRequest' % cid)
                else:
                    h = Hdrs()
                    err = None
                    for ln in b.split(b'\r\n'):
                        if ln == b'':
                            break
                        e = parse_line(h, ln)
                        if e is not None and 'UnsupportedValue' not in e:
                            err = e
                            break
                    exp.append('blk %s %s' % (cid, ('ERR ' + err) if err else 'ok ' + h.render()))
            else:
                continue
            if lines != exp:
                k = 0
                while k < len(lines) and k < len(exp) and lines[k] == exp[k]:
                    k += 1
                v.append({'case': t, 'oracle': 'independent statement of the header rules',
                          'expected': (exp[k] if k < len(exp) else '<nothing>')[:300],
                          'observed': (lines[k] if k < len(lines) else '<missing>')[:300], 'signature': 'C15:rules'})
        return v

    def nontrivial(self, tree, meta, impl_lines):
        if tree[0] == 2 and len(tree[2]) >= 2:
            return ('l', tuple(bytes(x) for x in tree[2]))
        if tree[0] == 3 and bytes(tree[2]).count(b'\r\n') >= 1:
            return ('b', bytes(tree[2]))
        return None
