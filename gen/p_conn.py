# Properties decided on the HttpConnection read half: C01, C03, C04, C11, C12, C13.
import re

import reqgen
from base import Prop

STYLES = ['whole', 'bytewise', 'fixed', 'cuts', 'random', 'random']


def parse_rd(line):
    """conn <id> <i> rd=... sys=.. held=.. pend=.. | REQ ... -> dict"""
    head, *reqs = line.split(' | ')
    parts = head.split(' ')
    f = {'i': parts[2], 'reqs': reqs, 'raw': line}
    m = re.search(r' rd=(.*?) sys=(\d+) held=(\d+) pend=(\d)', head)
    if m:
        f['rd'], f['sys'], f['held'], f['pend'] = m.group(1), int(m.group(2)), int(m.group(3)), int(m.group(4))
    m = re.search(r' wr=(.*?) off=(\S+)(?: CALLS=\d+)? pend=(\d)', head)
    if m:
        f['wr'], f['off'], f['pend'] = m.group(1), m.group(2), int(m.group(3))
    return f


def strip_files(req):
    return re.sub(r' files=\[[^\]]*\]', '', req)


def files_of(req):
    m = re.search(r' files=\[([^\]]*)\]', req)
    return [int(x) for x in m.group(1).split(',') if x] if m else []


def deliveries(lines, with_files=False):
    """requests delivered, in order, up to and including the first parse error"""
    out = []
    for ln in lines:
        f = parse_rd(ln)
        if 'rd' not in f:
            continue
        for r in f['reqs']:
            out.append(r if with_files else strip_files(r))
        if f['rd'].startswith('Err(ParseError'):
            out.append(f['rd'])
            break
    return out


class ConnProp(Prop):
    tie_groups = ['Limits', 'Tokens', 'Headers']
    needs_small = True

    def mk(self, limit, stream, ops, meta):
        return ([6, limit, bytes(stream), ops], meta)


class C01(ConnProp):
    pid = 'C01'
    observables = 'per try_read: result, requests delivered (all fields, bodies), pending output; per stream: deliveries and first error'
    rule = ('grammar-generated streams of 1..6 pipelined requests (about 65% error-free, the rest with one corrupted request; '
            'line lengths up to and beyond the buffer, bodies up to 6000 bytes) x read schedules {one big read, byte by byte, '
            'fixed chunk, cuts inside CR|LF / CRLF|CRLF / at buffer multiples, random with EAGAIN/EINTR}; each stream is run '
            'under several schedules on the 1024-byte build and on the 32-byte-buffer build; non-trivial = distinct '
            '(stream, schedule) with at least two data reads and at least one delivery or parse error')

    def cases(self, rng, tier):
        out = []
        nstreams = 450 if tier == 'quick' else 20000
        sid = 0
        for _ in range(nstreams):
            limit = 51200 if rng.random() < 0.7 else rng.choice(reqgen.LIMITS)
            stream, kinds = reqgen.gen_stream(rng, limit, long_lines=(rng.random() < 0.3))
            sid += 1
            for style in ['whole', 'bytewise'] + rng.sample(STYLES, 3):
                if style == 'bytewise' and len(stream) > 3000:
                    style = 'fixed'
                ops = reqgen.schedule(rng, stream, style)
                out.append(self.mk(limit, stream, ops, {'kind': style, 'sid': sid, 'stream_kinds': kinds}))
        # small-buffer build: every element crosses the buffer edge
        for _ in range(250 if tier == 'quick' else 20000):
            stream, kinds = small_stream(rng)
            sid += 1
            for style in ['whole', 'bytewise'] + rng.sample(STYLES, 2):
                ops = reqgen.schedule(rng, stream, style, buf=32)
                out.append(self.mk(51200, stream, ops, {'kind': 'small-' + style, 'sid': sid, 'small': True,
                                                        'stream_kinds': kinds}))
        return out

    def oracle(self, cases, impl):
        v = []
        by_sid = {}
        for cid, t, m in cases:
            if 'sid' in m:
                by_sid.setdefault(m['sid'], []).append((cid, t, m))
        for sid, grp in by_sid.items():
            ref = None
            for cid, t, m in grp:
                d = deliveries(impl.get(cid, []))
                if ref is None:
                    ref = (cid, t, d)
                elif d != ref[2]:
                    k = 0
                    while k < len(d) and k < len(ref[2]) and d[k] == ref[2][k]:
                        k += 1
                    v.append({'case': t, 'small': bool(m.get('small')),
                              'oracle': 'two read schedules of the same byte stream (implementation only)',
                              'other_schedule': ref[1][4],
                              'expected': (ref[2][k] if k < len(ref[2]) else '<nothing more>')[:300],
                              'observed': (d[k] if k < len(d) else '<nothing more>')[:300],
                              'signature': 'C01:schedule-dependence'})
                    break
        return v

    def nontrivial(self, tree, meta, impl_lines):
        reads = [parse_rd(l) for l in impl_lines]
        nok = sum(1 for f in reads if f.get('rd') == 'Ok')
        d = deliveries(impl_lines)
        if nok >= 2 and d:
            return (bytes(tree[3]), repr(tree[4]), meta.get('small', False))
        return None

    def extra_coverage(self, cases, impl):
        errs = {}
        nreq = 0
        for cid, t, m in cases:
            d = deliveries(impl.get(cid, []))
            for x in d:
                if x.startswith('Err('):
                    k = re.sub(r'\(.*', '', x[len('Err(ParseError('):])
                    errs[k] = errs.get(k, 0) + 1
                else:
                    nreq += 1
        nerr = sum(errs.values())
        return {'requests_delivered': nreq, 'first_parse_errors_by_kind': errs,
                'error_free_cases': len(cases) - nerr}


SMALL_PIECES = [b'GET / HTTP/1.1\r\n', b'PUT /a HTTP/1.0\r\n', b'PATCH /bb HTTP/1.1\r\n', b'X: y\r\n', b'A:b\r\n',
                b'Expect: 100-continue\r\n', b'Accept: text/plain\r\n']


def small_stream(rng):
    """streams for the 32-byte-buffer build: every line is <= 32 bytes unless deliberately too long"""
    parts = []
    kinds = []
    for _ in range(rng.randint(1, 4)):
        rl = rng.choice(SMALL_PIECES[:3])
        hs = [rng.choice(SMALL_PIECES[3:]) for _ in range(rng.randint(0, 3))]
        body = b''
        r = rng.random()
        if r < 0.5:
            n = rng.choice([1, 2, 5, 30, 31, 32, 33, 63, 64, 65, 100])
            hs.append(b'Content-Length: %d\r\n' % n)
            body = bytes(rng.choice(b'ab\r\n') for _ in range(n))
        if r > 0.9:
            hs.append(rng.choice([b'X-Long: ' + b'z' * rng.choice([22, 23, 24, 25, 40]) + b'\r\n', b'NoColon\r\n', b'Content-Length: x\r\n']))
            kinds.append('bad')
        else:
            kinds.append('ok')
        parts.append(rl + b''.join(hs) + b'\r\n' + body)
    return b''.join(parts), kinds
