# Properties decided on the HttpConnection read half: C01, C03, C04, C11, C12, C13.
import re

import reqgen
from base import Prop

STYLES = ['whole', 'bytewise', 'fixed', 'cuts', 'random', 'random']


def parse_rd(line):
    """conn <id> <i> rd=... sys=.. held=.. pend=.. | REQ ... -> dict"""
    head, *reqs = line.split(' | ')
    parts = head.split(' ')
    f = {'i': parts[2], 'reqs': reqs, 'raw': line}
    m = re.search(r' rd=(.*?) sys=(\d+) held=(\d+) pend=(\d)', head)
    if m:
        f['rd'], f['sys'], f['held'], f['pend'] = m.group(1), int(m.group(2)), int(m.group(3)), int(m.group(4))
    m = re.search(r' wr=(.*?) off=(\S+)(?: CALLS=\d+)? pend=(\d)', head)
    if m:
        f['wr'], f['off'], f['pend'] = m.group(1), m.group(2), int(m.group(3))
    return f


def strip_files(req):
    return re.sub(r' files=\[[^\]]*\]', '', req)


def files_of(req):
    m = re.search(r' files=\[([^\]]*)\]', req)
    return [int(x) for x in m.group(1).split(',') if x] if m else []


def deliveries(lines, with_files=False):
    """requests delivered, in order, up to and including the first parse error"""
    out = []
    for ln in lines:
        f = parse_rd(ln)
        if 'rd' not in f:
            continue
        for r in f['reqs']:
            out.append(r if with_files else strip_files(r))
        if f['rd'].startswith('Err(ParseError'):
            out.append(f['rd'])
            break
    return out


class ConnProp(Prop):
    tie_groups = ['Limits', 'Tokens', 'Headers']
    needs_small = True

    def mk(self, limit, stream, ops, meta):
        return ([6, limit, bytes(stream), ops], meta)


class C01(ConnProp):
    pid = 'C01'
    observables = 'per try_read: result, requests delivered (all fields, bodies), pending output; per stream: deliveries and first error'
    rule = ('grammar-generated streams of 1..6 pipelined requests (about 65% error-free, the rest with one corrupted request; '
            'line lengths up to and beyond the buffer, bodies up to 6000 bytes) x read schedules {one big read, byte by byte, '
            'fixed chunk, cuts inside CR|LF / CRLF|CRLF / at buffer multiples, random with EAGAIN/EINTR}; each stream is run '
            'under several schedules on the 1024-byte build and on the 32-byte-buffer build; non-trivial = distinct '
            '(stream, schedule) with at least two data reads and at least one delivery or parse error')

    def cases(self, rng, tier):
        out = []
        nstreams = 450 if tier == 'quick' else 20000
        sid = 0
        for _ in range(nstreams):
            limit = 51200 if rng.random() < 0.7 else rng.choice(reqgen.LIMITS)
            stream, kinds = reqgen.gen_stream(rng, limit, long_lines=(rng.random() < 0.3))
            sid += 1
            for style in ['whole', 'bytewise'] + rng.sample(STYLES, 3):
                if style == 'bytewise' and len(stream) > 3000:
                    style = 'fixed'
                ops = reqgen.schedule(rng, stream, style)
                out.append(self.mk(limit, stream, ops, {'kind': style, 'sid': sid, 'stream_kinds': kinds}))
        # small-buffer build: every element crosses the buffer edge
        for _ in range(250 if tier == 'quick' else 20000):
            stream, kinds = small_stream(rng)
            sid += 1
            for style in ['whole', 'bytewise'] + rng.sample(STYLES, 2):
                ops = reqgen.schedule(rng, stream, style, buf=32)
                out.append(self.mk(51200, stream, ops, {'kind': 'small-' + style, 'sid': sid, 'small': True,
                                                        'stream_kinds': kinds}))
        return out

    def oracle(self, cases, impl):
        v = []
        by_sid = {}
        for cid, t, m in cases:
            if 'sid' in m:
                by_sid.setdefault(m['sid'], []).append((cid, t, m))
        for sid, grp in by_sid.items():
            ref = None
            for cid, t, m in grp:
                d = deliveries(impl.get(cid, []))
                if ref is None:
                    ref = (cid, t, d)
                elif d != ref[2]:
                    k = 0
                    while k < len(d) and k < len(ref[2]) and d[k] == ref[2][k]:
                        k += 1
                    v.append({'case': t, 'small': bool(m.get('small')),
                              'oracle': 'two read schedules of the same byte stream (implementation only)',
                              'other_schedule': ref[1][4],
                              'expected': (ref[2][k] if k < len(ref[2]) else '<nothing more>')[:300],
                              'observed': (d[k] if k < len(d) else '<nothing more>')[:300],
                              'signature': 'C01:schedule-dependence'})
                    break
        return v

    def nontrivial(self, tree, meta, impl_lines):
        reads = [parse_rd(l) for l in impl_lines]
        nok = sum(1 for f in reads if f.get('rd') == 'Ok')
        d = deliveries(impl_lines)
        if nok >= 2 and d:
            return (bytes(tree[3]), repr(tree[4]), meta.get('small', False))
        return None

    def extra_coverage(self, cases, impl):
        errs = {}
        nreq = 0
        for cid, t, m in cases:
            d = deliveries(impl.get(cid, []))
            for x in d:
                if x.startswith('Err('):
                    k = re.sub(r'\(.*', '', x[len('Err(ParseError('):])
                    errs[k] = errs.get(k, 0) + 1
                else:
                    nreq += 1
        nerr = sum(errs.values())
        return {'requests_delivered': nreq, 'first_parse_errors_by_kind': errs,
                'error_free_cases': len(cases) - nerr}


SMALL_PIECES = [b'GET / HTTP/1.1\r\n', b'PUT /a HTTP/1.0\r\n', b'PATCH /bb HTTP/1.1\r\n', b'X: y\r\n', b'A:b\r\n',
                b'Expect: 100-continue\r\n', b'Accept: text/plain\r\n']


def small_stream(rng):
    """streams for the 32-byte-buffer build: every line is <= 32 bytes unless deliberately too long"""
    parts = []
    kinds = []
    for _ in range(rng.randint(1, 4)):
        rl = rng.choice(SMALL_PIECES[:3])
        hs = [rng.choice(SMALL_PIECES[3:]) for _ in range(rng.randint(0, 3))]
        body = b''
        r = rng.random()
        if r < 0.5:
            n = rng.choice([1, 2, 5, 30, 31, 32, 33, 63, 64, 65, 100])
            hs.append(b'Content-Length: %d\r\n' % n)
            body = bytes(rng.choice(b'ab\r\n') for _ in range(n))
        if r > 0.9:
            hs.append(rng.choice([b'X-Long: ' + b'z' * rng.choice([22, 23, 24, 25, 40]) + b'\r\n', b'NoColon\r\n', b'Content-Length: x\r\n']))
            kinds.append('bad')
        else:
            kinds.append('ok')
        parts.append(rl + b''.join(hs) + b'\r\n' + body)
    return b''.join(parts), kinds


# ------------------------------------------------------------------------------------ C11
def split_shadow(line):
    if ' || ' in line:
        a, b = line.split(' || ', 1)
        return a, b
    return line, None


class C11(ConnProp):
    pid = 'C11'
    observables = 'per try_read after a parse error: result, delivered requests, held descriptors (the model side); the same calls replayed on a freshly created connection (implementation-only oracle)'
    rule = ('error prefix A (every corruption kind, placed in request line / header / body-length position, with and without '
            'a partial line already buffered, any segmentation) followed by continuation B (valid requests, header-like '
            'lines, blank lines, garbage) x schedules; from the first ParseError on, a new HttpConnection with the same limit '
            'receives exactly the same bytes and descriptors and must behave identically; at the server: good requests and a malformed one in one read, then another request; non-trivial = distinct case in '
            'which at least one read with data follows the first parse error')

    def cases(self, rng, tier):
        out = []
        n = 1200 if tier == 'quick' else 60000
        for _ in range(n):
            limit = 51200 if rng.random() < 0.8 else rng.choice([0, 1, 5, 1024, 51200])
            parts = []
            kinds = []
            # zero or more good requests, then the bad one (possibly preceded by a partial element)
            for _ in range(rng.randint(0, 2)):
                parts.append(reqgen.gen_request(rng, limit)[0])
            bad, kind = reqgen.gen_bad_request(rng, limit)
            kinds.append(kind)
            parts.append(bad)
            # continuation
            for _ in range(rng.randint(1, 4)):
                r = rng.random()
                if r < 0.5:
                    parts.append(reqgen.gen_request(rng, limit)[0])
                elif r < 0.65:
                    parts.append(rng.choice([b'X-a: b\r\n\r\n', b'\r\n', b'\r\n\r\n', b'Content-Length: 3\r\n\r\nabc', b'Host: x\r\n']))
                elif r < 0.8:
                    parts.append(reqgen.gen_bad_request(rng, limit)[0])
                else:
                    parts.append(bytes(rng.choice(b'GETPU /HTP1.\r\n: x') for _ in range(rng.randint(1, 40))))
            stream = b''.join(parts)
            style = rng.choice(STYLES + ['bytewise', 'cuts'])
            if style == 'bytewise' and len(stream) > 2500:
                style = 'fixed'
            ops = [[12]] + reqgen.schedule(rng, stream, style, fds=(rng.random() < 0.3))
            # the drain stops at the first error: keep reading afterwards
            ops += [[2, rng.choice([1, 3, 50, 1 << 20])] for _ in range(6)]
            out.append(self.mk(limit, stream, ops, {'kind': 'A:' + kind + '/' + style}))
        for _ in range(200 if tier == 'quick' else 20000):
            stream, kinds = small_stream(rng)
            stream = stream + small_stream(rng)[0]
            ops = [[12]] + reqgen.schedule(rng, stream, rng.choice(STYLES), buf=32) + [[2, rng.choice([1, 5, 1 << 20])] for _ in range(6)]
            out.append(self.mk(51200, stream, ops, {'kind': 'small', 'small': True}))
        # at the server: complete requests parsed by the same read as a malformed one are dropped with the 400 and never
        # yielded afterwards; the next well-formed request on the connection is served
        for _ in range(150 if tier == 'quick' else 5000):
            k = rng.choice([0, 1, 2, 2, 3, 4])
            split = rng.random() < 0.3
            goods = b''.join(b'GET /c0/g%d HTTP/1.1\r\n\r\n' % j for j in range(k))
            bad = rng.choice([b'GET /c0/bad HTTP/9.9\r\n\r\n', b'PUT /c0/bad HTTP/1.1\r\nContent-Length: x\r\n\r\n',
                              b'BREW /c0/bad HTTP/1.1\r\n\r\n', b'GET  /c0/bad HTTP/1.1\r\n\r\n',
                              b'PUT /c0/bad HTTP/1.1\r\nContent-Length: 99999999\r\n\r\n',
                              b'PUT /c0/bad HTTP/1.1\r\nContent-Length: ' + b'9' * 600 + b'\r\n\r\n'])
            if (k == 0 or split) and rng.random() < 0.25:
                # a header line of exactly 1024 bytes without line end (arriving alone): rejected when the window is full of it; the 400 that echoes it is longer than 1 KiB
                bad = b'GET /c0/bad HTTP/1.1\r\n' + (b'X-L: ' + b'v' * 2000)[:1024]
            ops = [[0, 0], [11, 4]]
            # sometimes the 400 is sent by flush_outgoing_writes (one poll reads the malformed request, then the flush)
            after_bad = [[6], [8]] if rng.random() < 0.4 else [[11, 6]]
            if split:
                ops += [[1, 0, goods], [11, 6], [1, 0, bad]] + after_bad
            else:
                ops += [[1, 0, goods + bad]] + after_bad
            ops += [[5, 0], [1, 0, b'GET /c0/after HTTP/1.1\r\n\r\n'], [11, 6]] + [[12, 0]] * (k + 1) + [[11, 6], [5, 0]]
            want = ([b'/c0/g%d' % j for j in range(k)] if split else []) + [b'/c0/after']
            out.append(([9, 0, ops], {'kind': 'server-error-then-request', 'k': k, 'split': split,
                                      'want': [w.decode() for w in want]}))
        return out

    def project(self, line):
        return split_shadow(line)[0]

    def oracle(self, cases, impl):
        v = []
        for cid, t, m in cases:
            if m.get('kind') == 'server-error-then-request':
                ys = []
                bad = None
                for ln in impl.get(cid, []):
                    if ' poll Ok ' in ln:
                        for r in ln.split(' | ')[1:]:
                            mm = re.search(r' u=([0-9a-f-]+) ', r)
                            ys.append(bytes.fromhex(mm.group(1).replace('-', '')).decode('latin-1') if mm else '?')
                    elif (' poll Err' in ln or ' resp Err' in ln or ln.startswith('hang') or ln.startswith('panic')) and bad is None:
                        bad = ln
                if bad is not None or ys != m['want']:
                    v.append({'case': t, 'small': False,
                              'oracle': 'a request dropped with the 400 is never yielded afterwards; later well-formed requests are served',
                              'expected': 'yields in order: %r' % (m['want'],), 'observed': (bad or repr(ys))[:300],
                              'signature': 'C11:server-yields'})
                continue
            for ln in impl.get(cid, []):
                a, b = split_shadow(ln)
                if b is None:
                    continue
                fa = parse_rd(a)
                mb = re.match(r'rd=(.*?) held=(\d+) left=(\d+)(.*)$', b)
                if not mb or 'rd' not in fa:
                    continue
                sreqs = [x for x in mb.group(4).split(' | ') if x]
                same = (fa['rd'] == mb.group(1) and str(fa['held']) == mb.group(2) and mb.group(3) == '0'
                        and fa['reqs'] == sreqs)
                if fa['sys'] == 0:
                    same = False    # a new connection would have performed the read
                if not same:
                    v.append({'case': t, 'small': bool(m.get('small')),
                              'oracle': 'after the first parse error, a new connection with the same limit fed the same bytes',
                              'expected': ('fresh: ' + b)[:400], 'observed': a[:400], 'signature': 'C11:not-as-fresh'})
                    break
        return v

    def nontrivial(self, tree, meta, impl_lines):
        seen_err = False
        for ln in impl_lines:
            a, b = split_shadow(ln)
            if b is not None and ' rd=Ok' in a:
                return (bytes(tree[3]), repr(tree[4]))
        return None


# ------------------------------------------------------------------------------------ C12
class C12(ConnProp):
    pid = 'C12'
    observables = 'per try_read: the descriptor tags handed over with each delivered request and the number still held; descriptors left open after dropping requests and connection'
    rule = ('error-free pipelined streams x schedules x 0..253 tagged descriptors per read (including reads that complete '
            'zero, one or several requests and the read that hits EOF); 30% of the schedules leave completed requests queued over several reads (no pop_parsed_request) before one read pops them all; each descriptor is a memfd whose content is its tag; '
            'non-trivial = distinct case with at least two descriptors and one delivered request')

    def cases(self, rng, tier):
        out = []
        n = 900 if tier == 'quick' else 40000
        for _ in range(n):
            stream, kinds = reqgen.gen_stream(rng, 51200, p_bad=0.1, max_req=5)
            style = rng.choice(['random', 'random', 'cuts', 'whole'])
            ops = reqgen.schedule(rng, stream, style, fds=True)
            if rng.random() < 0.5:
                ops.append([0, 10, rng.choice([0, 1, 2, 5])])      # the read that hits EOF
            meta = {'kind': style}
            if rng.random() < 0.3:
                # reads whose completed requests stay queued (op 13: no pop_parsed_request) before a later read pops them
                # all: descriptors must stay with the request whose completion they accompanied, whatever else is queued
                ops = [[13] + o[1:] if o[0] == 0 and rng.random() < 0.6 else o for o in ops]
                ops.append([0, 10, 0])
                meta = {'kind': style + '+held'}
            out.append(self.mk(51200, stream, ops, meta))
        for _ in range(150 if tier == 'quick' else 10000):
            stream, kinds = small_stream(rng)
            ops = reqgen.schedule(rng, stream, 'random', fds=True, buf=32)
            out.append(self.mk(51200, stream, ops, {'kind': 'small', 'small': True}))
        return out

    def oracle(self, cases, impl):
        v = []
        for cid, t, m in cases:
            lines = impl.get(cid, [])
            ops = t[4]
            pending = []
            nxt = 0
            bad = None
            by_i = {}
            for ln in lines:
                if ' LEAK ' in ln:
                    bad = ('no descriptor left open after requests and connection are dropped', ln)
                    break
                f = parse_rd(ln)
                by_i.setdefault(int(f['i']), []).append(f)
            if not bad:
                # expected = the descriptor lists owed to the requests queued in the connection (held reads, op 13, leave
                # completed requests queued; their line shows the queue length q)
                expected = []
                for i, op in enumerate(ops):
                    for f in by_i.get(i, []):
                        if 'rd' not in f:
                            continue
                        k = 0
                        if op[0] in (0, 13) and f['sys'] == 1:
                            k = min(op[2], 253)
                        pending += list(range(nxt, nxt + k))
                        nxt += k
                        if op[0] == 13:
                            mq = re.search(r' q=(\d+)', f['raw'])
                            newly = (int(mq.group(1)) if mq else len(expected)) - len(expected)
                            if newly < 0:
                                bad = ('%d requests queued' % len(expected), 'q=%s' % (mq.group(1) if mq else '?'))
                                break
                            got = None
                        else:
                            got = [files_of(r) for r in f['reqs']]
                            newly = len(got) - len(expected)
                            if newly < 0:
                                bad = ('the %d queued requests popped' % len(expected), '%d popped' % len(got))
                                break
                        if newly > 0:
                            expected += [pending] + [[]] * (newly - 1)
                            pending = []
                        if got is not None:
                            if got != expected:
                                bad = ('all pending descriptors to the first request completed by the read that brought them, none to other requests: %r' % expected, repr(got))
                                break
                            expected = []
                        if f['rd'].startswith('Err(ParseError'):
                            pending = []
                        if f['held'] != len(pending):
                            bad = ('%d descriptors held by the connection' % len(pending), 'held=%d' % f['held'])
                            break
                    if bad:
                        break
            if bad:
                v.append({'case': t, 'small': bool(m.get('small')), 'oracle': 'tag conservation, in arrival order',
                          'expected': bad[0][:300], 'observed': bad[1][:300], 'signature': 'C12:' + bad[0].split(':')[0][:40]})
        return v

    def nontrivial(self, tree, meta, impl_lines):
        nf = sum(min(o[2], 253) for o in tree[4] if o[0] in (0, 13))
        if nf >= 2 and any(' | REQ' in l for l in impl_lines):
            return (bytes(tree[3]), repr(tree[4]))
        return None


# ------------------------------------------------------------------------------------ C13
def expect_request(rng, limit, n, version, expect_kind):
    hs = []
    # several Expect lines: an unsupported expectation is skipped and leaves the flag as it is
    for k in expect_kind.split('+'):
        if k == 'yes':
            hs.append(reqgen.expect_line(rng, ok=True))
        elif k == 'unsupported':
            hs.append(reqgen.expect_line(rng, ok=False))
    if n is not None:
        hs.insert(rng.randint(0, len(hs)), b'Content-Length: %d' % n)
    if rng.random() < 0.4:
        hs.insert(rng.randint(0, len(hs)), b'X-Other: 1')
    head = rng.choice([b'PUT', b'PATCH', b'GET']) + b' /e ' + version + b'\r\n' + b''.join(h + b'\r\n' for h in hs) + b'\r\n'
    body = bytes(rng.choice(b'xy\r\n') for _ in range(n or 0)) if (n or 0) <= limit else b''
    return head, body


class C13(ConnProp):
    pid = 'C13'
    observables = 'bytes offered by try_write after every read (the queued interim responses), pending_write, deliveries'
    rule = ('streams mixing requests with Expect (any case, padding, unsupported expectation values, several Expect lines) and without, '
            'Content-Length in {absent, 0, 1.., L, L+1}, both versions, pipelined; schedules that deliver the header block '
            'alone, then flush the output, then the body; non-trivial = distinct case with at least one Expect request')

    def cases(self, rng, tier):
        out = []
        n = 1200 if tier == 'quick' else 50000
        for _ in range(n):
            limit = rng.choice([3, 8, 1024, 2500])
            ops = []
            stream = b''
            want = []     # expected interim responses (versions) in order
            stopped = False
            nreq = rng.randint(1, 4)
            for _ in range(nreq):
                ek = rng.choice(['yes', 'yes', 'yes', 'no', 'unsupported', 'unsupported', 'yes+unsupported', 'unsupported+yes', 'yes+yes'])
                nn = rng.choice([None, 0, 1, 2, limit - 1, limit, limit + 1, 17])
                if nn is not None and nn < 0:
                    nn = 0
                ver = rng.choice([b'HTTP/1.0', b'HTTP/1.1'])
                badver = rng.random() < 0.06
                if badver:
                    # a version token that only resembles a supported one: the request is rejected, no interim response
                    ver = rng.choice([b'HTTP/1.01', b'HTTP/1.10', b'HTTP/1.11', b'HTTP/1.', b'HTTP/1.1x', b'HTTP/1.00', b'HTTP/2.0', b'HTTP/1.21'])
                head, body = expect_request(rng, limit, nn, ver, ek)
                stream += head + body
                if not stopped:
                    if badver:
                        stopped = True
                    elif 'yes' in ek.split('+') and nn and 0 < nn <= limit:
                        want.append(ver)
                    if nn is not None and nn > limit:
                        stopped = True
                # schedule: headers alone, flush, then the body (or everything at once)
                if rng.random() < 0.6:
                    cut = rng.choice([len(head), len(head), len(head) - 1, len(head) + 1, max(1, len(head) - 2)])
                    ops += [[0, cut, 0], [3, 100000], [3, 100000]]
                    ops += [[2, rng.choice([1, 1 << 20])], [3, 100000], [3, 100000]]
                else:
                    ops += [[2, rng.choice([1, 7, 1 << 20])]]
                if stopped:
                    break
            ops += [[2, 1 << 20]] + [[3, 100000]] * 6
            out.append(self.mk(limit, stream, ops, {'kind': 'expect-mix', 'want': [w.decode() for w in want],
                                                   'has_expect': True}))
        return out + self.server_cases(rng, tier)

    def oracle(self, cases, impl):
        v = []
        for cid, t, m in cases:
            if m['kind'] == 'server-expect':
                lines = impl.get(cid, [])
                # through the server the client receives 100 Continue without having sent the body, then the
                # request is yielded normally once the body arrives
                rx = b''
                stage = {}
                for ln in lines:
                    p = ln.split(' ')
                    if len(p) > 6 and p[3] == 'drain' and p[4] == '0':
                        rx += bytes.fromhex(p[5]) if p[5] != '-' else b''
                        stage[int(p[2])] = rx
                bad = None
                for (i_drain, due) in m['due']:
                    have = stage.get(i_drain, b'').count(b' 100 \r\n')
                    if have != due:
                        bad = ('%d interim responses received by the drain at step %d' % (due, i_drain), 'received %d' % have)
                        break
                ny = sum(len(ln.split(' | ')) - 1 for ln in lines if ' poll Ok ' in ln)
                if not bad and ny != m['nreq']:
                    bad = ('%d requests yielded' % m['nreq'], '%d yielded' % ny)
                if bad:
                    v.append({'case': t, 'oracle': 'interim responses on the wire through HttpServer (real sockets)',
                              'expected': bad[0], 'observed': bad[1], 'signature': 'C13:server'})
                continue
            got = []
            for ln in impl.get(cid, []):
                f = parse_rd(ln)
                if 'wr' in f and f['off'] not in ('none',):
                    b = bytes.fromhex(f['off'].replace('-', ''))
                    mm = re.match(rb'(HTTP/1\.[01]) 100 \r\n', b)
                    if mm:
                        # a 100 must be the whole response and carry no body
                        got.append(mm.group(1).decode())
                        if b'Content-Length' in b or not b.endswith(b'\r\n\r\n'):
                            got.append('malformed-100')
            if got != m.get('want'):
                v.append({'case': t, 'oracle': 'interim responses on the wire, counted per request from the generator\'s own bookkeeping',
                          'expected': repr(m.get('want')), 'observed': repr(got), 'signature': 'C13:interim-responses'})
        return v

    def nontrivial(self, tree, meta, impl_lines):
        if tree[0] == 9:
            return repr(tree[3])[:2000]
        return (bytes(tree[3]), repr(tree[4])) if meta.get('want') else None

    tie_groups = ['Limits', 'Tokens', 'Headers', 'Server', 'Response']

    def server_cases(self, rng, tier):
        out = []
        # a limit raised above the default before the client connects: an Expect request whose length lies between the default
        # and the raised limit gets its 100 Continue and is yielded
        for _ in range(10 if tier == 'quick' else 200):
            L = rng.choice([60000, 102400, 2 ** 32 - 1])
            n = rng.choice([51201, 52000, 60000])
            ver = rng.choice([b'HTTP/1.0', b'HTTP/1.1'])
            head = b'PUT /c0/r0 ' + ver + b'\r\nContent-Length: %d\r\nExpect: 100-continue\r\n\r\n' % n
            ops = [[10, L], [0, 0], [11, 4], [1, 0, head], [11, 6], [5, 0]]
            due = [(len(ops) - 1, 1)]
            ops += [[1, 0, b'b' * n], [11, 90], [12, 0], [11, 8], [5, 0]]
            out.append(([9, 0, ops], {'kind': 'server-expect', 'due': due, 'nreq': 1, 'want': ['srv']}))
        for _ in range(150 if tier == 'quick' else 6000):
            ops = [[0, 0], [11, 4]]
            due = []
            ndue = 0
            nreq = 0
            k = 0
            for _ in range(rng.randint(1, 3)):
                style = rng.choice(['head-then-body', 'plain+head', 'head+body', 'plain'])
                ver = rng.choice([b'HTTP/1.0', b'HTTP/1.1'])
                ex = rng.choice([b'Expect: 100-continue', b'expect:100-continue', b'EXPECT:  100-continue  '])
                head = b'PUT /c0/r%d ' % (k + (1 if style == 'plain+head' else 0)) + ver + b'\r\nContent-Length: 4\r\n' + ex + b'\r\n\r\n'
                plain = b'GET /c0/r%d HTTP/1.1\r\n\r\n' % k
                answer_now = rng.random() < 0.4
                if style == 'plain':
                    ops += [[1, 0, plain], [11, 6]]
                    k += 1
                    nreq += 1
                elif style == 'head-then-body':
                    ops += [[1, 0, head], [11, 6], [5, 0]]
                    ndue += 1
                    due.append((len(ops) - 1, ndue))
                    ops += [[1, 0, b'body'], [11, 6]]
                    k += 1
                    nreq += 1
                elif style == 'plain+head':
                    ops += [[1, 0, plain + head], [11, 6], [5, 0]]
                    ndue += 1
                    due.append((len(ops) - 1, ndue))
                    ops += [[1, 0, b'body'], [11, 6]]
                    k += 2
                    nreq += 2
                else:
                    ops += [[1, 0, head + b'body'], [11, 6], [5, 0]]
                    ndue += 1
                    due.append((len(ops) - 1, ndue))
                    k += 1
                    nreq += 1
                if answer_now:
                    ops += [[12, 0], [11, 4]]
            ops += [[12, 0]] * 6 + [[11, 8], [5, 0]]
            out.append(([9, 0, ops], {'kind': 'server-expect', 'due': due, 'nreq': nreq, 'want': ['srv']}))
        return out


# ------------------------------------------------------------------------------------ C04
class C04(ConnProp):
    pid = 'C04'
    observables = 'the error value and the read that returns it; delivered bodies'
    rule = ('limits L in {0..8,1023,1024,1025,51199,51200,51201,2^32-1} x declared lengths around L (x Expect) with the '
            'stream cut right after the header terminator; declared lengths of 2^32 and beyond; request lines and header lines of 1000..1100 bytes at varying '
            'offsets after earlier requests and bodies x schedules; non-trivial = distinct case whose declared length is '
            'within 2 of L or whose long line is within 3 bytes of the buffer size')

    def cases(self, rng, tier):
        out = []
        reps = 3 if tier == 'quick' else 60
        for L in reqgen.LIMITS:
            for d in (-2, -1, 0, 1, 2, 1000):
                n = L + d
                if n < 0 or n >= 2 ** 32:
                    continue
                for _ in range(reps):
                    pre = b''.join(reqgen.gen_request(rng, 51200 if L > 51200 else L)[0] for _ in range(rng.randint(0, 2)))
                    hs = [b'Content-Length: %d' % n]
                    if rng.random() < 0.4:
                        hs.append(b'Expect: 100-continue')
                    rng.shuffle(hs)
                    head = b'PUT /x HTTP/1.1\r\n' + b''.join(h + b'\r\n' for h in hs) + b'\r\n'
                    nb = min(n, 3000)
                    stream = pre + head + b'b' * nb
                    # deliver exactly up to the header terminator first
                    ops = [[2, 1 << 20]] if rng.random() < 0.3 else \
                        reqgen.schedule(rng, pre + head, rng.choice(STYLES))[:-1] + [[0, 1, 0]] * 0
                    # exact cut: consume pre+head fully (bounded takes), then the rest
                    ops = cut_exact(rng, len(pre) + len(head)) + [[3, 100000], [2, rng.choice([1, 1 << 20])]]
                    out.append(self.mk(L, stream, ops, {'kind': 'limit', 'L': L, 'n': n, 'headlen': len(pre) + len(head),
                                                        'near': abs(d) <= 2}))
        # limits above the default with bodies beyond 51200 bytes sent in full: delivered whole
        for L in (60000, 102400):
            for n in (51200, 51201, 60000):
                for _ in range(1 if tier == 'quick' else 4):
                    head = b'PUT /big HTTP/1.1\r\nContent-Length: %d\r\n\r\n' % n
                    body = bytes(rng.choice(b'abcxyz') for _ in range(n))
                    stream = head + body + b'GET /after HTTP/1.1\r\n\r\n'
                    ops = [[2, 1 << 20]] * 4
                    out.append(self.mk(L, stream, ops, {'kind': 'limit', 'L': L, 'n': n, 'headlen': len(head), 'near': False}))
        # declared lengths that do not fit 32 bits (n > L for every L): rejected when the header block completes, never
        # taken modulo 2^32
        for L in reqgen.LIMITS:
            for n in (2 ** 32, 2 ** 32 + 1, 2 ** 32 + min(L, 7), 2 ** 32 + L, 2 ** 33 + 3, 2 ** 64, 2 ** 64 + min(L, 5), 10 ** 20 + 2):
                for _ in range(1 if tier == 'quick' else 6):
                    pre = b''.join(reqgen.gen_request(rng, 51200 if L > 51200 else L)[0] for _ in range(rng.randint(0, 1)))
                    hs = [b'Content-Length: %d' % n] + ([b'Expect: 100-continue'] if rng.random() < 0.3 else [])
                    rng.shuffle(hs)
                    head = b'PUT /x HTTP/1.1\r\n' + b''.join(h + b'\r\n' for h in hs) + b'\r\n'
                    stream = pre + head + b'b' * min(n % 2 ** 32, 3000) + b'GET /after HTTP/1.1\r\n\r\n'
                    ops = reqgen.schedule(rng, stream, rng.choice(STYLES))
                    out.append(self.mk(L, stream, ops, {'kind': 'limit-overflow', 'L': L, 'n': n, 'near': True,
                                                        'npre': pre.count(b' HTTP/1.')}))
        # several Content-Length lines: the last acceptable one decides, also for the limit
        for _ in range(80 if tier == 'quick' else 4000):
            L = rng.choice([3, 4, 8, 100, 1024, 51200])
            over = L + rng.choice([1, 2, 1000])
            within = rng.choice([0, 1, min(L, 2000)])
            first, last = rng.choice([(over, within), (within, over), (over, over + 1), (within, min(L, within + 1))])
            sep = rng.choice([b'', b'X-A: b\r\n', b'Expect: 100-continue\r\n'])
            head = b'PUT /d HTTP/1.1\r\nContent-Length: %d\r\n' % first + sep + b'content-length:%d\r\n\r\n' % last
            body = b'q' * (last if last <= L else 0)
            stream = head + body + b'GET /after HTTP/1.1\r\n\r\n'
            ops = reqgen.schedule(rng, stream, rng.choice(STYLES))
            out.append(self.mk(L, stream, ops, {'kind': 'dup-cl', 'L': L, 'first': first, 'last': last, 'near': True}))
        # line lengths around the buffer size, at varying offsets
        m = 400 if tier == 'quick' else 30000
        for _ in range(m):
            pre = b''.join(reqgen.gen_request(rng, 51200)[0] for _ in range(rng.randint(0, 2)))
            ll = rng.choice([1000, 1020, 1021, 1022, 1023, 1024, 1025, 1026, 1027, 1030, 1100])   # incl. CRLF
            where = rng.choice(['reqline', 'header', 'header2'])

            def fill(k, ch):
                # a line beyond the limit is rejected whatever it contains: also fill it with bytes that are not UTF-8
                if ll <= 1024 or rng.random() < 0.5:
                    return ch * k
                alpha = rng.choice([b'\xff', b'\x80\xff', b'\xc3', b'a\xff', b'\xc3\xa9\xff', bytes(range(128, 256)), b'v\xe2\x82'])
                return bytes(rng.choice(alpha) for _ in range(k))
            if where == 'reqline':
                u = b'/' + fill(ll - 2 - len(b'GET  HTTP/1.1') - 1, b'u')
                bad = b'GET ' + u + b' HTTP/1.1\r\n\r\n'
            else:
                name = rng.choice([b'X-Long: ', b'h: ', b'h:'] + ([b'Content-Length: '] if ll > 1024 else []))
                line = name + fill(ll - 2 - len(name), b'v')
                extra = b'X-A: b\r\n' if where == 'header2' else b''
                bad = b'GET / HTTP/1.1\r\n' + extra + line + b'\r\n\r\n'
            stream = pre + bad + reqgen.gen_request(rng, 51200)[0]
            ops = reqgen.schedule(rng, stream, rng.choice(STYLES))
            out.append(self.mk(51200, stream, ops, {'kind': 'line-' + where, 'line': ll, 'where': where,
                                                    'near': abs(ll - 1024) <= 3, 'npre': pre.count(b' HTTP/1.')}))
        # server level: each connection keeps the limit configured when its client connected; the 400 reports both numbers
        for _ in range(120 if tier == 'quick' else 5000):
            L1, L2 = rng.sample([0, 3, 4, 8, 10, 100, 1024, 2000], 2)
            n = rng.choice([min(L1, L2) + 1, max(L1, L2), max(L1, L2) + 1, min(L1, L2), (L1 + L2) // 2 or 1])
            if n == 0:
                n = 1
            r = rng.random()
            if r < 0.15:
                # numbers beyond 31 bits in the 400 (declared, not sent)
                n = rng.choice([2 ** 31, 2 ** 31 + 5, 2 ** 32 - 1, 3000000000])
            elif r < 0.3:
                # a limit raised above the default: a connection accepted afterwards uses it
                L1, L2 = rng.choice([(60000, 4), (102400, 51200), (4, 60000), (51200, 52000)])
                n = rng.choice([51201, 52000, 60000])
            big = n > 4000

            def req(c, k):
                # small bodies are sent whether or not the limit admits them (the rest of a rejected request is then
                # parsed as garbage); large ones only when the connection's limit admits them
                lim = (L1, L2)[c]
                body = b'z' * (n if (not big or n <= lim) else 0)
                return b'PUT /c%d/r%d HTTP/1.1\r\nContent-Length: %d\r\n\r\n' % (c, k, n) + body
            ops = [[10, L1], [0, 0], [11, 4]]
            if rng.random() < 0.5:
                ops += [[1, 0, req(0, 0)[:rng.randint(1, 30)]], [11, 4]]
                first_sent = True
            else:
                first_sent = False
            ops += [[10, L2], [0, 1], [11, 4]]
            sends = [[1, 0, req(0, 0)[rng.randint(1, 30):] if False else req(0, 0)], [1, 1, req(1, 0)]]
            if first_sent:
                # client 0 already sent a prefix: send the rest of the same request
                pref = ops[3][2]
                sends[0] = [1, 0, req(0, 0)[len(pref):]]
            rng.shuffle(sends)
            for sd in sends:
                ops += [sd, [11, 6 if n <= 4000 else 80]]
            ops += [[12, 0], [12, 0], [11, 80], [12, 0], [12, 0], [11, 6], [5, 0], [5, 1]]
            out.append(([9, 0, ops], {'kind': 'server-limit', 'limits': [L1, L2], 'n': n, 'near': True}))
        # unterminated lines: rejected exactly when BUF bytes of them have arrived
        for k in ([1022, 1023, 1024, 1025] if True else []):
            for where in ('reqline', 'header'):
                s = (b'GET /' + b'u' * k) if where == 'reqline' else (b'GET / HTTP/1.1\r\nX: ' + b'v' * k)
                out.append(self.mk(51200, s, [[2, 1 << 20]], {'kind': 'unterminated', 'near': True}))
        return out

    def oracle(self, cases, impl):
        v = []
        for cid, t, m in cases:
            lines = impl.get(cid, [])
            if m['kind'] == 'server-limit':
                n = m['n']
                for c, L in enumerate(m['limits']):
                    got = b''
                    for ln in lines:
                        p = ln.split(' ')
                        if len(p) > 6 and p[3] == 'drain' and p[4] == str(c) and p[5] != '-':
                            got += bytes.fromhex(p[5])
                    if n > L:
                        want = b'Request payload with size %d is larger than the limit of %d allowed by server.' % (n, L)
                        if not got.startswith(b'HTTP/1.1 400 ') or want not in got:
                            v.append(self.viol(t, 'client %d connected under limit %d and declared %d: a 400 reporting both numbers' % (c, L, n),
                                               repr(got[:160]), 'server-limit'))
                            break
                    else:
                        if b'echo:/c%d/r0' % c not in got:
                            v.append(self.viol(t, 'client %d connected under limit %d and declared %d: the request is served' % (c, L, n),
                                               repr(got[:160]), 'server-limit'))
                            break
                continue
            d = deliveries(lines)
            if m['kind'] == 'limit':
                L, n = m['L'], m['n']
                errs = [x for x in d if x.startswith('Err(')]
                want_err = 'Err(ParseError(SizeLimitExceeded(%d,%d)))' % (L, n)
                if n > L:
                    # reported by the read that completes the header block: ops[0..k] consume exactly headlen bytes
                    first = None
                    for ln in lines:
                        f = parse_rd(ln)
                        if 'rd' in f and f['rd'].startswith('Err(ParseError'):
                            first = f
                            break
                    ncut = len(cut_exact_sizes(m['headlen']))
                    if not errs or errs[0] != want_err:
                        v.append(self.viol(t, 'n > L  =>  ' + want_err, errs[0] if errs else 'no error', 'size-iff'))
                    elif first is not None and int(first['i']) >= ncut:
                        v.append(self.viol(t, 'reported by the read that completes the header block (op < %d)' % ncut,
                                           'reported at op %s' % first['i'], 'size-early'))
                else:
                    if errs and 'SizeLimitExceeded' in errs[0]:
                        v.append(self.viol(t, 'n <= L  =>  accepted', errs[0], 'size-iff'))
                for x in d:
                    mm = re.search(r' cl=(\d+) .* body=some:([0-9a-f]+)', x)
                    if mm and (len(mm.group(2)) // 2 != int(mm.group(1)) or int(mm.group(1)) > L):
                        v.append(self.viol(t, 'delivered body has the declared length and is within the limit', x[:200], 'body-bound'))
            elif m['kind'] == 'limit-overflow':
                reqs = [x for x in d if x.startswith('REQ')]
                errs = [x for x in d if x.startswith('Err(')]
                if len(reqs) != m['npre'] or not errs or 'ParseError' not in errs[0]:
                    v.append(self.viol(t, 'declared length %d > L = %d: rejected after %d earlier requests, nothing of it delivered' % (m['n'], m['L'], m['npre']),
                                       ' ; '.join(x[:80] for x in d[:4]), 'size-overflow'))
            elif m['kind'] == 'dup-cl':
                L, last = m['L'], m['last']
                head = d[0] if d else 'nothing'
                if last <= L:
                    if not head.startswith('REQ') or (' cl=%d ' % last) not in head:
                        v.append(self.viol(t, 'Content-Length %d then %d under limit %d: the last value decides, the request is delivered' % (m['first'], last, L),
                                           head[:160], 'dup-cl'))
                else:
                    want_err = 'Err(ParseError(SizeLimitExceeded(%d,%d)))' % (L, last)
                    if head != want_err:
                        v.append(self.viol(t, 'Content-Length %d then %d under limit %d: %s' % (m['first'], last, L, want_err), head[:160], 'dup-cl'))
            elif m['kind'].startswith('line-'):
                ll = m['line']
                errs = [x for x in d if x.startswith('Err(')]
                nreq = len([x for x in d if x.startswith('REQ')])
                if ll > 1024:
                    want = 'InvalidRequest' if m['where'] == 'reqline' else 'HeaderError(SizeLimitExceeded'
                    if not errs or want not in errs[0] or nreq != m['npre']:
                        v.append(self.viol(t, 'line of %d bytes incl. CRLF rejected for its length after %d requests' % (ll, m['npre']),
                                           (errs[0] if errs else 'no error')[:120] + ' after %d requests' % nreq, 'line-iff'))
                else:
                    if nreq < m['npre'] + 1:
                        v.append(self.viol(t, 'line of %d bytes incl. CRLF accepted' % ll,
                                           (errs[0] if errs else 'no error')[:200], 'line-iff'))
        return v

    def viol(self, t, exp, obs, sig):
        return {'case': t, 'oracle': 'the iff evaluated on the implementation', 'expected': exp, 'observed': obs,
                'signature': 'C04:' + sig}

    def nontrivial(self, tree, meta, impl_lines):
        if tree[0] == 9:
            return repr(tree[3])[:2000]
        return (tree[2], bytes(tree[3]), repr(tree[4])) if meta.get('near') else None

    tie_groups = ['Limits', 'Tokens', 'Headers', 'Server']


def cut_exact_sizes(n, buf=1024):
    """sizes of reads that consume exactly n bytes when each read has at least `buf//2` room... conservative:
    chunks of at most 256 bytes never exceed the room left by a partial line shorter than buf-256"""
    out = []
    while n > 0:
        k = min(n, 200)
        out.append(k)
        n -= k
    return out


def cut_exact(rng, n):
    return [[0, k, 0] for k in cut_exact_sizes(n)]


# ------------------------------------------------------------------------------------ C03 (connection part)
class C03Conn:
    """random operation sequences that continue after every kind of error"""

    @staticmethod
    def cases(rng, tier, mk):
        out = []
        n = 900 if tier == 'quick' else 40000
        for _ in range(n):
            r = rng.random()
            if r < 0.4:
                stream, _ = reqgen.gen_stream(rng, 51200, p_bad=0.6)
            elif r < 0.7:
                alpha = rng.choice([bytes(range(256)), b'\r\n', b'\x00\r\n\x80\xff :GET/HTP1.', b'GET / HTTP/1.1\r\n'])
                stream = bytes(rng.choice(alpha) for _ in range(rng.choice([0, 1, 10, 100, 1500, 5000])))
            else:
                good = bytearray(reqgen.gen_stream(rng, 51200, p_bad=0.2)[0])
                for _ in range(rng.randint(1, 8)):
                    if good:
                        good[rng.randrange(len(good))] = rng.choice([0, 13, 10, 0x80, 0xff, 32, 58])
                stream = bytes(good)
            ops = []
            for _ in range(rng.randint(3, 40)):
                q = rng.random()
                if q < 0.5:
                    ops.append([0, rng.choice([1, 2, 10, 100, 1000, 1024, 4096]), rng.choice([0, 0, 0, 1, 3])])
                elif q < 0.58:
                    ops.append([1, rng.choice([11, 4, 104, 9])])
                elif q < 0.68:
                    ops.append([7, [rng.randint(0, 1), rng.randint(0, 10), []]])
                elif q < 0.85:
                    ops.append(rng.choice([[3, 1], [3, 50], [3, 100000], [4], [5, 32], [3, 0]]))
                elif q < 0.9:
                    ops.append([9])
                elif q < 0.95:
                    ops.append([10, rng.choice(reqgen.LIMITS)])
                else:
                    ops.append([2, rng.choice([1, 100, 1 << 20])])
            ops += [[2, 1 << 20], [2, 1 << 20], [0, 5, 0]]
            out.append(mk(51200, stream, ops, {'kind': 'conn-random-ops'}))
        # lines that reach the window size and are not UTF-8 (error paths that render the buffer as text), in each
        # parser state, under schedules that first park a partial line at the front of the window
        for _ in range(150 if tier == 'quick' else 8000):
            ll = rng.choice([1022, 1023, 1024, 1025, 1026, 1100, 2100])
            alpha = rng.choice([b'\xff', b'\x80\xff', b'\xc3', b'a\xff', b'\xc3\xa9\xff', bytes(range(128, 256)), b'v\xe2\x82', b'\xf0\x9f'])
            where = rng.choice(['reqline', 'header', 'header2'])
            if where == 'reqline':
                bad = b'GET /' + bytes(rng.choice(alpha) for _ in range(ll)) + b' HTTP/1.1\r\n\r\n'
            else:
                name = rng.choice([b'h: ', b'h:', b'X-Long: ', b'Content-Length:'])
                extra = b'X-A: b\r\n' if where == 'header2' else b''
                bad = rng.choice([b'GET / HTTP/1.1\r\n', b'PUT /abc HTTP/1.0\r\n']) + extra + name + \
                    bytes(rng.choice(alpha) for _ in range(max(0, ll - 2 - len(name)))) + b'\r\n\r\n'
            pre = b''.join(reqgen.gen_request(rng, 51200)[0] for _ in range(rng.randint(0, 1)))
            stream = pre + bad + reqgen.gen_request(rng, 51200)[0]
            first = len(pre) + rng.choice([1, 5, 16, 17, 18, 19, 20, 30])
            style = rng.random()
            if style < 0.4:
                ops = [[0, first, 0]] + [[0, rng.choice([1024, 1000, 500, 4096]), 0] for _ in range(12)]
            elif style < 0.7:
                ops = [[0, rng.choice([1, 3, 7, 100, 1023, 1024]), 0] for _ in range(40)]
            else:
                ops = [[2, 1 << 20]]
            ops += [[2, 1 << 20], [3, 100000], [3, 100000]]
            out.append(mk(51200, stream, ops, {'kind': 'long-nonutf8-line'}))
        # long streams up to ~60 KiB
        for _ in range(6 if tier == 'quick' else 300):
            n = rng.choice([20000, 40000, 61440])
            body = bytes(rng.choice(b'ab\r\n') for _ in range(n))
            s = b'PUT /big HTTP/1.1\r\nContent-Length: %d\r\n\r\n' % n + body + b'GET / HTTP/1.1\r\n\r\n'
            out.append(mk(65536, s, [[2, rng.choice([1 << 20, 1000, 333])]], {'kind': 'conn-60k'}))
        return out
