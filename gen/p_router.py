# C17: router dispatch.
import itertools

from base import Prop

METH = [b'GET', b'PUT', b'PATCH']
PATHS = [b'', b'/a', b'/a/b', b'/a:b', b':', b'/b', b'a', b'/a/', b'/:', b'/a/b/c', b':/a', b'/GET:/a']
PREFIXES = [b'', b'/api', b'/a', b':', b'/a/b']
STATUS = [b'100', b'200', b'204', b'400', b'401', b'404', b'405', b'413', b'500', b'501', b'503']


def abs_path_spec(u):
    if u.startswith(b'http://'):
        rest = u[7:]
        i = rest.find(b'/')
        return rest[i:] if i >= 0 else b''
    if u.startswith(b'/'):
        return u
    return b''


class C17(Prop):
    pid = 'C17'
    tie_groups = ['Router']
    observables = 'add_route results, which recording handler ran (and how often), the returned response bytes'
    rule = ('route tables over 3 methods x a path alphabet with prefix-related paths, empty prefix and ":" in paths, '
            'random registration orders with duplicates, requests in origin- and absolute-form (with host, host:port and empty host); exhaustive over all '
            'ordered tables of <= 2 routes in the thorough tier; non-trivial = distinct (table, request list) with at '
            'least two routes')

    def make(self, rng, sid, prefix, routes):
        reqs = []
        fulls = set(prefix + p for (_, p, _) in routes)
        fulls |= set(rng.choice(PREFIXES) + rng.choice(PATHS) for _ in range(3))
        for full in sorted(fulls):
            for m in rng.sample([0, 1, 2], 2):
                forms = []
                if full and b' ' not in full:
                    forms.append(full)
                forms.append(b'http://h' + full)
                forms.append(b'http://h:80' + full)
                forms.append(b'http://' + full)          # empty host: http:///a/b has the path /a/b
                if full:
                    forms.append(b'http:/' + full)
                for u in forms:
                    if u:
                        reqs.append(METH[m] + b' ' + u + b' HTTP/1.' + (b'0' if rng.random() < 0.3 else b'1') + b'\r\n\r\n')
        rng.shuffle(reqs)
        return [8, sid, prefix, [[m, p, h] for (m, p, h) in routes], reqs[:16]]

    def cases(self, rng, tier):
        out = []
        n = 1500 if tier == 'quick' else 40000
        for _ in range(n):
            prefix = rng.choice(PREFIXES)
            k = rng.randint(0, 6)
            routes = []
            for h in range(k):
                if routes and rng.random() < 0.3:
                    m, p, _ = rng.choice(routes)   # a duplicate registration
                else:
                    m, p = rng.randint(0, 2), rng.choice(PATHS)
                routes.append((m, p, rng.randint(0, 40) * 50 + h))
            sid = rng.choice([b'srv', b'Firecracker API', b'x', b''])
            out.append((self.make(rng, sid, prefix, routes), {'kind': 'random-table'}))
        if tier == 'thorough':
            small_paths = [b'', b'/a', b'/a/b', b':']
            for prefix in [b'', b'/a']:
                for r1, r2 in itertools.product(itertools.product(range(3), small_paths), repeat=2):
                    routes = [(r1[0], r1[1], 1), (r2[0], r2[1], 2)]
                    out.append((self.make(rng, b's', prefix, routes), {'kind': 'exhaustive-2'}))
        return out

    def oracle(self, cases, impl):
        v = []
        for cid, t, m in cases:
            sid, prefix, routes, reqs = bytes(t[2]), bytes(t[3]), t[4], t[5]
            lines = impl.get(cid, [])
            table = {}
            exp = []
            for i, (mm, p, h) in enumerate(routes):
                key = (mm, prefix + bytes(p))
                if key in table:
                    exp.append('route %s add %d exists(%s)' % (cid, i, (METH[mm] + b':' + key[1]).hex()))
                else:
                    table[key] = h
                    exp.append('route %s add %d ok' % (cid, i))
            for j, rq in enumerate(reqs):
                rq = bytes(rq)
                parts = rq.split(b'\r\n')[0].split(b' ')
                mm = METH.index(parts[0])
                h = table.get((mm, abs_path_spec(parts[1])))
                if h is None:
                    resp = b'HTTP/1.1 404 \r\nServer: ' + sid + b'\r\nConnection: keep-alive\r\nContent-Type: application/json\r\nContent-Length: 0\r\n\r\n'
                    who = 'None'
                else:
                    body = b'h%d' % h
                    resp = (b'HTTP/1.0 ' if h % 2 == 1 else b'HTTP/1.1 ') + STATUS[h % 11] + b' \r\nServer: ' + sid + \
                        b'\r\nConnection: keep-alive\r\nContent-Type: application/json\r\nContent-Length: %d\r\n\r\n' % len(body) + body
                    who = str(h)
                exp.append('route %s req %d who=%s resp=%s' % (cid, j, who, resp.hex()))
            if lines != exp:
                k = 0
                while k < len(lines) and k < len(exp) and lines[k] == exp[k]:
                    k += 1
                v.append({'case': t, 'oracle': 'independent first-registration-wins table keyed by (method, prefix+path)',
                          'expected': exp[k] if k < len(exp) else '<nothing>',
                          'observed': lines[k] if k < len(lines) else '<missing>',
                          'signature': 'C17:' + ('add' if k < len(routes) else 'dispatch')})
        return v

    def nontrivial(self, tree, meta, impl_lines):
        if len(tree[4]) < 2:
            return None
        return repr(tree[2:])
